#!/bin/bash
# Runs every registered check once (tier $1, default quick) and prints one line per property. Not itself a check.
cd "$(dirname "$0")/.." || exit 2
tier=${1:-quick}
for p in $(python3 -c "import json; print(' '.join(c['property_id'] for c in json.load(open('MANIFEST.json'))['checks']))"); do
  out=$(./check $p --tier $tier 2>&1); rc=$?
  echo "rc=$rc $(echo "$out" | grep -c '^VIOLATION') viol | $(echo "$out" | grep "^$p tier" | tail -1)"
  echo "$out" | grep -A1 "^VIOLATION\|HARNESS" | cut -c1-300
done
