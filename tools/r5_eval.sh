#!/bin/bash
# Round-5 driver: validates and evaluates every finished sub-agent output under /tmp/r5/out-<PROP>/ that has not been stored yet.
cd "$(dirname "$0")/.." || exit 2
for d in /tmp/r5/out-C*; do
  p=$(basename $d | sed 's/out-//')
  for k in 1 2; do
    sid=$p-$((k+6))
    if [ -f $d/change$k.diff ] && [ -f $d/demo$k.py ] && [ -f $d/notes$k.md ] && [ ! -f seeded/$sid/meta.json ]; then
      /venv/bin/python tools/seed_eval.py $d $k $sid $p 2>&1 | tail -2
    fi
  done
done
