import sys, os, json, traceback
sys.path.insert(0, os.path.dirname(os.path.dirname(os.path.abspath(__file__))))
from vp import core; core.import_dfols()
from vp import scenario as sc
d = json.load(open(sys.argv[1])); case = d["case"]; scen = dict(case["scen"])
nf = case.get("nf_ref") or len(sc.run_solve(scen).calls)
k = 1 + (case["k"] - 1) % nf
scen["fault"] = {"k": k, "kind": case["kind"], "comp": case["comp"], "sticky": case["sticky"]}
o = sc.run_solve(scen)
if o.exc is not None: traceback.print_exception(type(o.exc), o.exc, o.exc.__traceback__)
print("k", k, "nf_ref", nf, "calls", [(c[0].tolist(), None if c[1] is None else c[1].tolist()) for c in o.calls][:12])
print(o.soln)
