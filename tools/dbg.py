"""Debug helper: run a replay's case and print the traceback of any exception plus the result (not a check)."""
import sys, os, json, traceback
sys.path.insert(0, os.path.dirname(os.path.dirname(os.path.abspath(__file__))))
from vp import core
core.import_dfols()
from vp import scenario as sc
d = json.load(open(sys.argv[1]))
case = d["case"]
mod = __import__("vp.props.%s" % d["property"].lower(), fromlist=["x"])
if "base" in case and hasattr(mod, "kw_hook_for"):
    o = sc.run_solve(case["base"], kw_hook=mod.kw_hook_for(case))
else:
    o = sc.run_solve(case)
if o.exc is not None:
    traceback.print_exception(type(o.exc), o.exc, o.exc.__traceback__)
print("livelock", o.livelock, "calls", len(o.calls), "fits", o.nfits, "warnings", o.warnings[:5])
if o.soln is not None:
    print(o.soln)
res = mod.PROFILES[d["profile"]].run(case)
print(res.failures, res.classes)
