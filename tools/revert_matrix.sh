#!/bin/bash
# Sensitivity protocol, part 1: re-introduce each repaired defect (git revert of one "fix:" commit in a scratch worktree
# under /tmp) and run the quick check of the property it was filed under WITHOUT the regression replays, i.e. the
# generated search alone has to find it again. Output: one line per fix. Not itself a check; never touches /repo's tree.
cd "$(dirname "$0")/.." || exit 2
out=${1:-tools/revert_matrix.txt}
: > "$out"
grep '^fixed:' known_findings.txt | while read -r _ prop sha rest; do
  prop=${prop#property=}
  wt=/tmp/wt-revert-$sha
  rm -rf "$wt"; git -C /repo worktree prune
  git -C /repo worktree add -q --detach "$wt" HEAD || { echo "$prop $sha worktree-failed" >> "$out"; continue; }
  if ! git -C "$wt" revert --no-commit "$sha" >/dev/null 2>&1; then
    echo "$prop $sha revert-conflict (not tested)" >> "$out"
  else
    tests=$(cd "$wt" && /venv/bin/python -m pytest -q -p no:cacheprovider -x dfols 2>&1 | tail -1)
    res=$(VERIF_REPO="$wt" VERIF_EVIDENCE_DIR=/tmp/verif-exp/evidence VERIF_FOUND_DIR=/tmp/verif-exp/found VERIF_SKIP_REGRESS=1 VERIF_SEED=${VERIF_SEED:-1} ./check "$prop" --tier quick 2>&1)
    rc=$?
    nv=$(echo "$res" | grep -c '^VIOLATION')
    cl=$(echo "$res" | grep -A1 '^VIOLATION' | grep clauses | head -2 | cut -c1-160 | tr '\n' ' ')
    echo "$prop $sha rc=$rc violations=$nv suite=[$tests] :: $cl" >> "$out"
  fi
  git -C /repo worktree remove --force "$wt"; rm -rf "$wt"
done
rm -rf /tmp/verif-exp
cat "$out"
