"""Regenerates MANIFEST.json from the property modules that exist (run from /verif)."""
import os, sys, json, importlib
sys.path.insert(0, os.path.dirname(os.path.dirname(os.path.abspath(__file__))))
ROOT = os.path.dirname(os.path.dirname(os.path.abspath(__file__)))
props = [json.loads(l) for l in open(os.path.join(ROOT, "properties.jsonl"))]
TEXT = json.load(open(os.path.join(ROOT, "tools", "manifest_text.json")))
checks, na = [], []
for p in props:
    pid = p["id"]
    if not os.path.exists(os.path.join(ROOT, "vp", "props", pid.lower() + ".py")):
        na.append({"property_id": pid, "reason": TEXT.get("not_built", "check not built yet (work in progress); nothing is claimed")})
        continue
    t = TEXT[pid]
    checks.append({
        "property_id": pid,
        "quick_cmd": "./check %s --tier quick" % pid,
        "thorough_cmd": "./check %s --tier thorough" % pid,
        "evidence_file": "/verif/evidence/%s.json" % pid,
        "replay_cmd_template": "./check %s --replay {path}" % pid,
        "engine": "vp",
        "level_claimed": {"category": t.get("category", "exploration"), "text": t["level"], "design_ref": "DESIGN.md section 4, %s" % pid},
        "level_note": t["note"],
        "technique": t["technique"],
    })
man = {
    "version": 1,
    "setup_cmd": "./check --setup",
    "hooks": {"guard": "DFOLS_VERIF", "enable": "none needed: all observation is done by wrapping (monkey-patching) from the harness; "
              "no hook commits exist in /repo, the guard name is reserved only",
              "baseline_off_cmd": "cd /repo && env -u DFOLS_VERIF /venv/bin/python -m pytest -q -p no:cacheprovider dfols",
              "source_commits": [], "add_only": True},
    "engines": [{"name": "vp", "path": "/verif/vp", "serves_properties": [c["property_id"] for c in checks],
                 "kind_free_text": "Hypothesis-driven generated search (composite strategies, operation-sequence generation, exhaustive "
                 "fault enumeration inside scenarios) sharded over 16 processes, explicit oracles, shrunk JSON replays"}],
    "checks": checks,
    "not_applicable": na,
    "notes": "Every check: ./check <ID> --tier quick|thorough (VERIF_SEED, VERIF_TIER honoured); exit 0 held / 1 VIOLATION / 2 harness error. "
             "Known findings: known_findings.txt (never written at run time). Replays: replays/regress (committed), replays/found (run time).",
}
json.dump(man, open(os.path.join(ROOT, "MANIFEST.json"), "w"), indent=1)
print("checks:", [c["property_id"] for c in checks], "not_applicable:", [n["property_id"] for n in na])
