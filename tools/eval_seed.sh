#!/bin/bash
# Sensitivity protocol, part 2: apply one seeded change (a unified diff against /repo's HEAD) in a scratch worktree under
# /tmp and run the quick checks of the given properties against it (generated search only, no regression replays,
# evidence and found replays redirected to /tmp). usage: tools/eval_seed.sh <patch.diff> <PROP> [<PROP>...]
cd "$(dirname "$0")/.." || exit 2
patch=$(readlink -f "$1"); shift
wt=/tmp/wt-seed-$$
git -C /repo worktree prune
git -C /repo worktree add -q --detach "$wt" HEAD || exit 2
if ! git -C "$wt" apply "$patch"; then echo "PATCH DOES NOT APPLY"; git -C /repo worktree remove --force "$wt"; exit 2; fi
echo "suite: $(cd "$wt" && /venv/bin/python -m pytest -q -p no:cacheprovider dfols 2>&1 | tail -1)"
for prop in "$@"; do
  res=$(VERIF_REPO="$wt" VERIF_EVIDENCE_DIR=/tmp/verif-exp/evidence VERIF_FOUND_DIR=/tmp/verif-exp/found-$$ VERIF_SKIP_REGRESS=1 \
        VERIF_SEED=${VERIF_SEED:-1} ./check "$prop" --tier ${TIER:-quick} 2>&1); rc=$?
  echo "$prop rc=$rc $(echo "$res" | grep "^$prop tier" | sed 's/.*wall=/wall=/') :: $(echo "$res" | grep -A1 '^VIOLATION' | grep clauses | head -2 | cut -c1-220 | tr '\n' ' ')"
done
git -C /repo worktree remove --force "$wt"; rm -rf "$wt" /tmp/verif-exp/found-$$
