#!/bin/bash
# Soundness protocol: every quick check at several VERIF_SEED values on the unchanged tree; any rc != 0 is printed.
cd "$(dirname "$0")/.." || exit 2
for sd in ${@:-2 3 4 5 6}; do
  echo "== seed $sd"; VERIF_SEED=$sd tools/run_all.sh quick | grep -v "^rc=0 0 viol" ; echo "== seed $sd done"
done
