#!/bin/bash
# Re-introduce one repaired defect (git revert --no-commit <sha> in a scratch worktree) and run the quick checks of the given
# properties against it, generated search only. usage: tools/revert_one.sh <sha> <PROP> [<PROP>...]
cd "$(dirname "$0")/.." || exit 2
sha=$1; shift
wt=/tmp/wt-revert-$sha
rm -rf "$wt"; git -C /repo worktree prune
git -C /repo worktree add -q --detach "$wt" HEAD || exit 2
if ! git -C "$wt" revert --no-commit "$sha" >/dev/null 2>&1; then echo "$sha revert-conflict"; git -C /repo worktree remove --force "$wt"; exit 0; fi
for prop in "$@"; do
  res=$(VERIF_REPO="$wt" VERIF_EVIDENCE_DIR=/tmp/verif-exp/evidence VERIF_FOUND_DIR=/tmp/verif-exp/found-$sha VERIF_SKIP_REGRESS=1 VERIF_SEED=${VERIF_SEED:-1} ./check "$prop" --tier ${TIER:-quick} ${EXTRA} 2>&1); rc=$?
  echo "$prop $sha rc=$rc :: $(echo "$res" | grep -A1 '^VIOLATION' | grep clauses | head -1 | cut -c1-200)"
done
git -C /repo worktree remove --force "$wt"; rm -rf "$wt" /tmp/verif-exp/found-$sha
