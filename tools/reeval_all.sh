#!/bin/bash
# Sensitivity regression: every stored seeded change against the quick check(s) that are recorded as catching it
# (meta.json: caught_by, default = the property in the seed id). One line per seed. Never touches /repo itself.
cd "$(dirname "$0")/.." || exit 2
for d in seeded/C*; do
  sid=$(basename $d)
  props=$(python3 -c "import json,sys; m=json.load(open('$d/meta.json')); print(' '.join(m.get('caught_by_checks') or [m.get('breaks_property') or '$sid'[:3]]))")
  out=$(tools/eval_seed.sh $d/patch.diff $props 2>&1 | grep -E "rc=|DOES NOT APPLY|suite" | tr '\n' ' ' | cut -c1-260)
  echo "$sid :: $out"
done
