#!/bin/bash
# Sensitivity regression, fast form: the seeded changes of rounds 1-3 that were once MISSED and closed by a strengthening (the
# fragile ones) against the quick check recorded as catching them. One line per seed. Never touches /repo itself.
cd "$(dirname "$0")/.." || exit 2
for sid in $(cat tools/fragile_seeds.txt); do
  d=seeded/$sid
  props=$(python3 -c "import json; m=json.load(open('$d/meta.json')); print(' '.join(m.get('caught_by_checks') or [m.get('breaks_property') or '$sid'[:3]]))")
  out=$(tools/eval_seed.sh $d/patch.diff $props 2>&1 | grep -E "rc=|DOES NOT APPLY" | tr '\n' ' ' | cut -c1-200)
  echo "$sid :: $out"
done
