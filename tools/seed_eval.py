"""Validate one independently written seeded change and run checks against it (sensitivity protocol, part 2).

usage: tools/seed_eval.py <source dir with change{k}.diff demo{k}.py notes{k}.md> <k> <seed id, e.g. C03-1> <PROP> [<PROP>...]

1. fresh scratch worktree of /repo HEAD under /tmp; demo must exit 0 there;
2. apply the diff; the repository's own suite must still pass (118); demo must exit 1;
3. run the quick check of each given property against the changed tree (generated search only: no regression replays,
   evidence/found replays redirected to /tmp) and record exit codes and the first failing clauses;
4. store patch.diff, demo.py, notes.md and meta.json under /verif/seeded/<seed id>/ and remove the worktree.
Nothing is ever applied to /repo itself."""
import os, sys, json, shutil, subprocess, time

VERIF = os.path.dirname(os.path.dirname(os.path.abspath(__file__)))
src, k, sid = sys.argv[1], sys.argv[2], sys.argv[3]
props = sys.argv[4:]
wt = "/tmp/wt-seed-%s" % sid


def sh(cmd, cwd=None, env=None, timeout=3600):
    r = subprocess.run(cmd, shell=True, cwd=cwd, env=env, stdout=subprocess.PIPE, stderr=subprocess.STDOUT, text=True, timeout=timeout)
    return r.returncode, r.stdout


sh("git -C /repo worktree prune; rm -rf %s" % wt)
rc, out = sh("git -C /repo worktree add -q --detach %s HEAD" % wt)
assert rc == 0, out
meta = {"seed_id": sid, "breaks_property": props[0] if props else None, "source": "independent sub-agent given only the property text and a scratch worktree",
        "repo_head": sh("git -C /repo rev-parse --short HEAD")[1].strip()}
try:
    demo = os.path.join(src, "demo%s.py" % k)
    os.makedirs(os.path.join(wt, "out"), exist_ok=True)
    shutil.copy(demo, os.path.join(wt, "out", "demo.py"))
    penv = dict(os.environ, PYTHONPATH=wt)      # make `import dfols` resolve to the scratch worktree, not the editable install
    rc0, out0 = sh("/venv/bin/python out/demo.py", cwd=wt, env=penv, timeout=900)
    meta["demo_exit_without_change"] = rc0
    rc, out = sh("git apply %s" % os.path.join(src, "change%s.diff" % k), cwd=wt)
    meta["patch_applies"] = rc == 0
    if rc != 0:
        print("PATCH DOES NOT APPLY", out)
    else:
        rct, outt = sh("/venv/bin/python -m pytest -q -p no:cacheprovider dfols 2>&1 | tail -1", cwd=wt)
        meta["suite_with_change"] = outt.strip()
        rc1, out1 = sh("/venv/bin/python out/demo.py", cwd=wt, env=penv, timeout=900)
        meta["demo_exit_with_change"] = rc1
        meta["demo_output_with_change"] = out1[-600:]
        meta["valid"] = bool(rc0 == 0 and rc1 == 1 and "118 passed" in outt)
        meta["checks"] = {}
        if meta["valid"]:
            for prop in props:
                env = dict(os.environ, VERIF_REPO=wt, VERIF_EVIDENCE_DIR="/tmp/verif-exp/evidence-%s" % sid,
                           VERIF_FOUND_DIR="/tmp/verif-exp/found-%s" % sid, VERIF_SKIP_REGRESS="1",
                           VERIF_SEED=os.environ.get("VERIF_SEED", "1"))
                t0 = time.time()
                rcc, outc = sh("./check %s --tier %s" % (prop, os.environ.get("TIER", "quick")), cwd=VERIF, env=env, timeout=7200)
                lines = outc.splitlines()
                meta["checks"][prop] = {"cmd": "VERIF_REPO=<worktree with patch> VERIF_SKIP_REGRESS=1 ./check %s --tier %s" % (prop, os.environ.get("TIER", "quick")),
                                        "exit": rcc, "wall_s": round(time.time() - t0, 1),
                                        "violations": [l[:300] for l in lines if l.startswith("VIOLATION") or l.startswith("  clauses")][:6],
                                        "summary": [l for l in lines if l.startswith(prop + " tier")][-1:]}
    dst = os.path.join(VERIF, "seeded", sid)
    os.makedirs(dst, exist_ok=True)
    shutil.copy(os.path.join(src, "change%s.diff" % k), os.path.join(dst, "patch.diff"))
    shutil.copy(demo, os.path.join(dst, "demo.py"))
    notes = os.path.join(src, "notes%s.md" % k)
    if os.path.exists(notes):
        shutil.copy(notes, os.path.join(dst, "notes.md"))
        meta["needs_to_manifest"] = open(notes).read()[:1500]
    meta["what_was_run"] = ["scratch worktree of /repo HEAD; demo.py without the patch (exit 0 expected)", "git apply patch.diff; repository suite (118 passed expected)",
                            "demo.py with the patch (exit 1 expected)"] + [c["cmd"] for c in meta.get("checks", {}).values()]
    json.dump(meta, open(os.path.join(dst, "meta.json"), "w"), indent=1)
    print(sid, "valid" if meta.get("valid") else "INVALID", {p: c["exit"] for p, c in meta.get("checks", {}).items()},
          "demo", meta.get("demo_exit_without_change"), meta.get("demo_exit_with_change"), meta.get("suite_with_change"))
finally:
    sh("git -C /repo worktree remove --force %s; rm -rf %s /tmp/verif-exp/found-%s /tmp/verif-exp/evidence-%s" % (wt, wt, sid, sid))
