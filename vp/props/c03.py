"""C03 - the returned solution is a point that was really evaluated."""
from ..core import CaseResult, Profile
from .. import scenario as sc, clauses as cl

PROP = "C03"
LEVEL = "exploration"
RULE = ("Hypothesis scenarios as for C02 plus L1/L2 regularisers (with and without bounds), zero-residual and "
        "start-at-minimiser problems, scaling, noisy objectives with hard restarts. The recorder keeps (x, r) of every "
        "call and the log gives each call's point number; soln.x / resid / obj are compared with the recorded data of "
        "evaluation point soln.xmin_eval_num. Every-iteration form: once per main-loop iteration (wrapper around the model's "
        "fitting method, read-only) every stored interpolation point is compared with the recorded data of the point number "
        "it carries (x, sample count, mean residual). Non-trivial = exit route other than the two plain successes, or >= 1 "
        "restart, or averaging, or scaling, or a regulariser. Distinct = SHA-1 of the case JSON.")
ASSUMPTIONS = ["x tolerance (8+2S)*eps*max(1,|x|,|bounds|) with S = number of base shifts (x(1+max(xu-xl)) when scaled)",
               "resid tolerance 8*eps*k*max|r| for k samples; obj tolerance 16*eps*(sum r^2 + |h|)",
               "h is recomputed by the harness from the regulariser's parameters"]

PROF = sc.make_prof(reg=0.15, zero_resid=0.15, diag=0.2)


def run(case):
    res = CaseResult()
    o = sc.run_solve(case, iter_hook=cl.iteration_hook(case, check_c03=True, check_c04=False))
    for clause, detail in o.iter_fail:
        res.fail(clause, detail)
    cl.c03(case, o, res)
    r = cl.route(o)
    res.classes.append("route:" + r)
    res.classes += case["tags"]
    if o.exc is not None:
        res.count("exceptions")
    restarts = max(len(o.main_calls) - 1, 0) + len(o.soft_restarts)
    if restarts:
        res.classes.append("restarted")
    if o.nshifts:
        res.classes.append("base-shift")
    res.nontrivial = bool(o.soln is not None and (r not in ("success-small", "success-rhoend") or restarts
                          or case.get("nsamples") or case["scaling"] or case.get("reg")))
    return res


PROFILES = {"solve": Profile("solve", lambda: sc.scenarios(PROF), run, quick=5000, thorough=120000, timeout=120)}
KNOWN = {}
