"""C03 - the returned solution is a point that was really evaluated."""
import numpy as np
from ..core import CaseResult, Profile
from .. import scenario as sc, clauses as cl

PROP = "C03"
LEVEL = "exploration"
RULE = ("Hypothesis scenarios as for C02 plus L1/L2 regularisers (with and without bounds), zero-residual and "
        "start-at-minimiser problems, scaling, noisy objectives with hard restarts, and (10%) projection-constrained scenarios (1-2 convex sets; momentum steps, point-appending soft restarts and random regression sets kept; the projection routine is logged). The recorder keeps (x, r) of every "
        "call and the log gives each call's point number; soln.x / resid / obj are compared with the recorded data of "
        "evaluation point soln.xmin_eval_num. Every-iteration form: once per main-loop iteration (wrapper around the model's "
        "fitting method, read-only) every stored interpolation point is compared with the recorded data of the point number "
        "it carries (x, sample count, mean residual). Non-trivial = exit route other than the two plain successes, or >= 1 "
        "restart, or averaging, or scaling, or a regulariser. Distinct = SHA-1 of the case JSON.")
ASSUMPTIONS = ["x tolerance (8+2S)*eps*max(1,|x|,|bounds|) with S = number of base shifts (x(1+max(xu-xl)) when scaled)",
               "resid tolerance 8*eps*k*max|r| for k samples; obj tolerance 16*eps*(sum r^2 + |h|)",
               "h is recomputed by the harness from the regulariser's parameters"]

PROF = sc.make_prof(reg=0.15, zero_resid=0.15, diag=0.2, proj=0.1, reg_with_scaling=True)      # C03 is about bookkeeping, not optimality: regulariser + scaling is in its domain


MARK = "[soln.x is the projection routine's output for the evaluated point: re-projection]"


def explain_reprojection(case, o, dlog, res):
    """With projections dfols recomputes the absolute position of the returned point by running the projection routine again.
    When a C03.x failure is *exactly* that - soln.x is bit-identical to the output of a logged projection call whose input was
    (to rounding) the evaluated point itself or the input of the call that produced the evaluated point - the detail is marked,
    and the known finding 'reprojected-solution' is keyed on the mark. Any other mismatch (e.g. an unprojected point) is not."""
    idx = [i for i, (c, d) in enumerate(res.failures) if c == "C03.x"]
    if not idx or o.soln is None:
        return
    groups = cl.point_groups(o)
    try:
        xe = o.calls[groups[int(o.soln.xmin_eval_num)][0]][0]
    except Exception:
        return
    x = np.asarray(o.soln.x, dtype=float)
    mags = [1.0] + [float(np.max(np.abs(c[0]))) for c in o.calls]
    tol = (8 + 2 * o.nshifts) * sc.EPS * max(mags)
    producers = [c["x_in"] for c in dlog.calls if np.array_equal(c["out"], xe)]
    for c in dlog.calls:
        if np.array_equal(c["out"], x):
            w = c["x_in"]
            if float(np.max(np.abs(w - xe))) <= tol or any(float(np.max(np.abs(w - u))) <= tol for u in producers):
                for i in idx:
                    res.failures[i] = (res.failures[i][0], res.failures[i][1] + " " + MARK)
                return


def known_reprojected(case, clause, detail):
    return bool(case.get("proj")) and clause == "C03.x" and MARK in detail


def run(case):
    res = CaseResult()
    dlog = sc.DykstraLog() if case.get("proj") else None
    o = sc.run_solve(case, iter_hook=cl.iteration_hook(case, check_c03=True, check_c04=False), dykstra_log=dlog)
    for clause, detail in o.iter_fail:
        res.fail(clause, detail)
    cl.c03(case, o, res)
    if dlog is not None:
        explain_reprojection(case, o, dlog, res)
    r = cl.route(o)
    res.classes.append("route:" + r)
    res.classes += case["tags"]
    if o.exc is not None:
        res.count("exceptions")
    restarts = max(len(o.main_calls) - 1, 0) + len(o.soft_restarts)
    if restarts:
        res.classes.append("restarted")
    if o.nshifts:
        res.classes.append("base-shift")
    res.nontrivial = bool(o.soln is not None and (r not in ("success-small", "success-rhoend") or restarts
                          or case.get("nsamples") or case["scaling"] or case.get("reg")))
    return res


ENUM_PROF = sc.make_prof(reg=0.1, zero_resid=0.1, diag=0.1, maxfuns=[12, 20, 30, 45], print_progress=0.0, route_bias=0.0, rhoend_exps=[1, 1, 2, 3])


def run_enum(case):
    """Budget enumeration: the scenario re-run with maxfun = 1..nf; the C03 clauses at every place the budget can end (exit during
    the initial set, inside a sampling batch, a geometry step, a restart)."""
    res = CaseResult()
    nf, ref = sc.budget_enumeration(case, cl.c03, res, iter_hook_factory=lambda c: cl.iteration_hook(c, check_c03=True, check_c04=False))
    res.classes += case["tags"]
    res.nontrivial = bool(nf > case["npt"] + 2)
    return res


PROFILES = {"solve": Profile("solve", lambda: sc.scenarios(PROF), run, quick=5000, thorough=120000, timeout=120),
            "budget-enum": Profile("budget-enum", lambda: sc.scenarios(ENUM_PROF), run_enum, quick=120, thorough=4000, timeout=600)}
KNOWN = {"reprojected-solution": known_reprojected}
