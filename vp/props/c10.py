"""C10 - exit flags and messages tell the truth."""
from ..core import CaseResult, Profile
from .. import scenario as sc, clauses as cl

PROP = "C10"
LEVEL = "exploration"
RULE = ("Hypothesis scenarios as for C02/C03 with model.abs_tol/rel_tol drawn over decades, zero-residual problems, "
        "restarts.max_unsuccessful_restarts in {1,2,3}, rhoend_scale, diagnostics always on. Restarts are counted "
        "independently of soln.nruns by wrapping solve_main and Controller.soft_restart. Non-trivial = at least one of "
        "the six implications has its antecedent true in the run (classes 'ante:*' in the histogram). Distinct = SHA-1.")
ASSUMPTIONS = ["f(x0) is the objective of the first evaluation point (mean of its samples), recomputed by the harness",
               "the rhoend of run j is rhoend * restarts.rhoend_scale^j; the run index is read from the table's nruns column",
               "restarts performed = (calls of solve_main - 1) + soft restarts granted (wrapper counts)"]

PROF = sc.make_prof(zero_resid=0.25, diag=1.0, rhoend_exps=[1, 1, 2, 3, 5])


def run(case):
    res = CaseResult()
    o = sc.run_solve(case)
    cl.c10(case, o, res)
    res.classes.append("route:" + cl.route(o))
    res.classes += case["tags"]
    if o.exc is not None:
        res.count("exceptions")
    res.nontrivial = any(c.startswith("ante:") for c in res.classes)
    return res


PROFILES = {"solve": Profile("solve", lambda: sc.scenarios(PROF), run, quick=5000, thorough=120000, timeout=120)}
KNOWN = {}
