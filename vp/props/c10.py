"""C10 - exit flags and messages tell the truth."""
import numpy as np
from hypothesis import strategies as st

from ..core import CaseResult, Profile
from .. import scenario as sc, clauses as cl

PROP = "C10"
LEVEL = "exploration"
RULE = ("Sub-generators: budget windows (soft restarts appending 1-3 points, optional 2-3 samples, maxfun any integer to 110; 15%) and non-finite objectives (inf/NaN/1e200 from evaluation k on, all restart flavours; 10%). Otherwise: Hypothesis scenarios as for C02/C03 with model.abs_tol/rel_tol drawn over decades, zero-residual problems, "
        "restarts.max_unsuccessful_restarts in {1,2,3}, rhoend_scale, diagnostics always on; in a third of the cases model.abs_tol "
        "is set to a multiple (2 .. 0.01) of f(x0) so that the small-objective exit fires at every stage of a run. Restarts are counted "
        "independently of soln.nruns by wrapping solve_main and Controller.soft_restart. Non-trivial = at least one of "
        "the six implications has its antecedent true in the run (classes 'ante:*' in the histogram). Distinct = SHA-1.")
ASSUMPTIONS = ["f(x0) is the objective of the first evaluation point (mean of its samples), recomputed by the harness",
               "the rhoend of run j is rhoend * restarts.rhoend_scale^j; the run index is read from the table's nruns column",
               "restarts performed = (calls of solve_main - 1) + soft restarts granted (wrapper counts)"]

PROF = sc.make_prof(zero_resid=0.25, diag=1.0, rhoend_exps=[1, 1, 2, 3, 5], reg=0.08)      # regularised runs: the thresholds are about sum(r^2)+h


@st.composite
def cases(draw):
    """Scenarios of the shared generator; in a third of them the small-objective threshold is placed next to the values
    the run will actually see (a multiple of f(x0)), so that the 'sufficiently small' exit fires at every stage of a run -
    including in the middle of a sampling batch - and a threshold test that is slightly off has something to bite on."""
    if draw(st.integers(0, 11)) == 0:
        # noise floor: start at the least-squares minimiser of a noisy linear problem with f* > 0 and put the small-objective
        # threshold a little below f*: the run cannot reach it, but a noisy re-evaluation (restart, extra sample) can
        n = draw(st.integers(1, 3))
        m = n + draw(st.integers(1, 2))
        A = np.array(draw(sc.draw_matrix(m, n)), dtype=float)
        b = np.array([draw(sc.g8) + 0.5 for _ in range(m)], dtype=float)
        xs = np.linalg.lstsq(A, b, rcond=None)[0]
        f0 = float(np.sum((A.dot(xs) - b) ** 2))
        if f0 > 1e-6:
            restart = draw(st.sampled_from(["hard-new-rk", "hard-new-rk", "hard-old-rk", "soft"]))
            up = {"restarts.use_restarts": True, "model.abs_tol": f0 * draw(st.sampled_from([0.97, 0.9, 0.8])),
                  "logging.save_diagnostic_info": True, "logging.save_poisedness": False,
                  "restarts.max_unsuccessful_restarts": draw(st.sampled_from([2, 3]))}
            if restart != "soft":
                up["restarts.use_soft_restarts"] = False
                if restart == "hard-new-rk":
                    up["restarts.hard.use_old_rk"] = False
            return {"n": n, "m": m, "fam": "lin", "A": A.tolist(), "b": b.tolist(), "x0": [float(v) for v in xs], "lower": None, "upper": None,
                    "scaling": False, "npt": n + 1, "rhobeg": 0.1, "rhoend": 10.0 ** -draw(st.sampled_from([2, 3])), "maxfun": draw(st.sampled_from([30, 60])),
                    "noise": {"seed": draw(st.integers(0, 2 ** 20)), "mult": draw(st.sampled_from([0.03, 0.1])), "add": 0.0},
                    "up": up, "np_seed": 0, "tags": ["noise-floor", "restarts:" + restart]}
    c = draw(sc.scenarios(PROF))
    sub = draw(st.integers(0, 19))
    if sub <= 1 and c["fam"] != "script":
        # non-finite objectives (from some evaluation on, or everywhere): the antecedent of 'a success flag is never attached to
        # a non-finite objective' needs runs whose best value is inf/NaN, in every restart flavour
        c["fault"] = {"k": draw(st.sampled_from([1, 1, 2, 3, c["npt"] + 1])), "kind": draw(st.sampled_from(["inf", "inf", "big", "nan", "-inf"])),
                      "comp": draw(st.sampled_from(["all", "all", 0])), "sticky": True}
        if draw(st.booleans()):
            c["up"]["restarts.use_restarts"] = True
            c["up"]["restarts.use_soft_restarts"] = draw(st.booleans())
            c["up"]["restarts.max_unsuccessful_restarts"] = draw(st.sampled_from([1, 2, 3]))
            c["up"].pop("restarts.increase_npt", None)
            c["up"].pop("restarts.max_npt", None)
            c["up"].pop("restarts.increase_npt_amt", None)
        c["maxfun"] = draw(st.sampled_from([10, 30, 60]))
        c["tags"] = sorted(set([t for t in c["tags"] if not t.startswith("restarts:")] + ["nonfinite-objective"]))
        return c
    if sub <= 4 and c["n"] >= 2 and not c.get("reg") and not c["up"].get("growing.ndirs_initial"):
        # budget windows: soft restarts that append several points (or several samples each) with the budget ending anywhere -
        # 'max-evaluations warning implies nf == maxfun' must hold wherever the budget runs out inside a restart
        n = c["n"]
        c["up"]["restarts.use_restarts"] = True
        c["up"].pop("restarts.use_soft_restarts", None)
        c["up"]["restarts.increase_npt"] = True
        c["up"]["restarts.max_npt"] = (n + 1) * (n + 2) // 2
        c["up"]["restarts.increase_npt_amt"] = draw(st.sampled_from([1, 2, 3]))
        c["up"].pop("restarts.max_unsuccessful_restarts", None)
        c["up"].pop("init.run_in_parallel", None)
        rb = c["rhobeg"] if c["rhobeg"] is not None else (0.1 if c["scaling"] else 0.1 * max(max(abs(v) for v in c["x0"]), 1.0))
        c["rhoend"] = rb * 10.0 ** -draw(st.sampled_from([1, 1, 2]))
        c["maxfun"] = draw(st.integers(c["npt"] + 2, 110))
        if draw(st.integers(0, 2)) == 0:
            c["nsamples"] = {"const": draw(st.sampled_from([2, 3]))}
        c["tags"] = sorted(set([t for t in c["tags"] if not t.startswith("restarts:")] + ["budget-window", "restarts:soft", "increase_npt"]))
    if c["fam"] != "script" and draw(st.integers(0, 2)) == 0:
        lo, up = sc.user_bounds(c)
        x0 = np.minimum(np.maximum(np.array(c["x0"], dtype=float), lo), up)
        with np.errstate(all="ignore"):
            r0 = sc.smooth_resid(c, x0)
            f0 = float(np.dot(r0, r0))
        if np.isfinite(f0) and f0 > 0:
            c["up"]["model.abs_tol"] = f0 * draw(st.sampled_from([2.0, 0.9, 0.5, 0.2, 0.1, 0.01]))
            c["up"].pop("model.rel_tol", None)
            c["tags"] = sorted(set(c["tags"] + ["threshold-near-f0"]))
    return c


def run(case):
    res = CaseResult()
    o = sc.run_solve(case)
    cl.c10(case, o, res)
    res.classes.append("route:" + cl.route(o))
    res.classes += case["tags"]
    if o.exc is not None:
        res.count("exceptions")
    res.nontrivial = any(c.startswith("ante:") for c in res.classes)
    return res


ENUM_PROF = sc.make_prof(zero_resid=0.2, diag=1.0, maxfuns=[12, 20, 30, 45], print_progress=0.0, route_bias=0.0, rhoend_exps=[1, 1, 2])


def run_enum(case):
    """Budget enumeration: the scenario re-run with maxfun = 1..nf; flag/message truthfulness wherever the budget ends."""
    res = CaseResult()
    nf, ref = sc.budget_enumeration(case, cl.c10, res)
    res.classes += case["tags"]
    res.nontrivial = bool(nf > case["npt"] + 2)
    return res


PROFILES = {"solve": Profile("solve", cases, run, quick=5000, thorough=120000, timeout=120),
            "budget-enum": Profile("budget-enum", lambda: sc.scenarios(ENUM_PROF), run_enum, quick=120, thorough=4000, timeout=600)}
KNOWN = {}
