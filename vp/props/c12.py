"""C12 - the box trust-region subproblem solver returns feasible, decreasing steps."""
import numpy as np
from hypothesis import strategies as st

from .. import core
from ..core import CaseResult, Profile

core.import_dfols()
from dfols.trust_region import trsbox  # noqa: E402
import dfols.trust_region as TR  # noqa: E402

PROP = "C12"
LEVEL = "exploration"
RULE = ("Hypothesis composite strategy over direct calls trsbox(xopt, g, H, sl, su, delta): n in 1..8; g on a dyadic/decimal "
        "grid times 10^e (e in -3..3, plus -14, -12, -10, -8, -6 and 6: gradients next to a zero-residual solution; zero components allowed); H in {2B'B full rank, rank deficient, zero, indefinite B+B'} "
        "times 10^e (5 decades); delta over 8 decades; each bound side drawn from {active, 1e-12*delta, 0.1, 0.5, 1, 10 "
        "times delta away, absent (1e20)}; xopt up to 1e3 in size. Non-trivial = at least one bound active at the returned "
        "point, or the step is on the trust-region boundary, or H is not full-rank PSD. Distinct = SHA-1 of the case JSON.")
ASSUMPTIONS = ["pure-Python trsbox (USE_FORTRAN is False in this image; checked at import)",
               "'satisfies the box exactly' is read in step space: sl - xopt <= d <= su - xopt in float64, no tolerance",
               "each tolerance is the statement's figure plus the float64 representation error of the point xopt+d "
               "(4*sqrt(n)*ulp(max|xopt|,|bounds|), zero when xopt=0), propagated through g and H where the clause is about q or gnew",
               "reference Cauchy step computed by the harness (steepest descent on the variables not fixed at a bound "
               "by the sign of g, truncated at the first bound or the ball)"]

if TR.USE_FORTRAN:
    raise core.HarnessError("trustregion Fortran module present: C12 would not exercise dfols' own trsbox")

grid8 = st.integers(-32, 32).map(lambda k: k / 8.0)
grid10 = st.integers(-40, 40).map(lambda k: k / 10.0)
val = st.one_of(grid8, grid10)
side = st.sampled_from([0.0, 0.0, 1e-12, 0.1, 0.5, 1.0, 10.0, 1e20, 1e20])


@st.composite
def cases(draw):
    n = draw(st.integers(1, 8))
    # gradient magnitudes from 1e-14 (next to a zero-residual solution: the routine's absolute thresholds bite) to 1e6
    eg = draw(st.sampled_from([-3, -2, -1, 0, 1, 2, 3, -3, -2, -1, 0, 1, 2, 3, -14, -12, -10, -8, -6, 6]))
    g = []
    for _ in range(n):
        v = draw(val)
        if draw(st.integers(0, 7)) == 0:
            v = v * 10.0 ** draw(st.integers(-3, 0))
        g.append(v * 10.0 ** eg)
    kind = draw(st.sampled_from(["psd", "psd", "lowrank", "zero", "indef"]))
    rows = {"psd": n + draw(st.integers(0, 2)), "lowrank": max(1, n // 2), "zero": 0, "indef": n}[kind]
    B = [[draw(grid8) for _ in range(n)] for _ in range(rows)]
    eh = draw(st.integers(-3, 2))
    delta = 10.0 ** draw(st.integers(-5, 3)) * draw(st.sampled_from([1.0, 2.5, 7.0]))
    lo = [draw(side) for _ in range(n)]
    up = [draw(side) for _ in range(n)]
    xs = draw(st.sampled_from([0.0, 1.0, 1.0, 10.0, 1e3])) * draw(st.sampled_from([1.0, 1.0, delta]))
    xopt = [draw(val) * xs for _ in range(n)]
    return {"n": n, "g": g, "kind": kind, "B": B, "eh": eh, "delta": delta, "lo": lo, "up": up, "xopt": xopt}


def build(c):
    n = c["n"]
    g = np.array(c["g"], dtype=float)
    B = np.array(c["B"], dtype=float).reshape(-1, n) if c["B"] else np.zeros((0, n))
    if c["kind"] == "indef":
        H = B + B.T
    elif c["kind"] == "zero":
        H = np.zeros((n, n))
    else:
        H = 2.0 * B.T.dot(B)
    H = H * 10.0 ** c["eh"]
    xopt = np.array(c["xopt"], dtype=float)
    d = float(c["delta"])
    lo = np.array(c["lo"], dtype=float)
    up = np.array(c["up"], dtype=float)
    sl = np.where(lo < 1e19, xopt - lo * d, -1e20)
    su = np.where(up < 1e19, xopt + up * d, 1e20)
    sl = np.minimum(sl, xopt)
    su = np.maximum(su, xopt)
    return xopt, g, H, sl, su, d


def cauchy_value(xopt, g, H, sl, su, delta):
    s = -g.copy()
    s[(xopt <= sl) & (g >= 0.0)] = 0.0
    s[(xopt >= su) & (g <= 0.0)] = 0.0
    ns = np.linalg.norm(s)
    if ns == 0.0:
        return 0.0
    tmax = delta / ns
    for i in range(len(s)):
        if s[i] > 0:
            tmax = min(tmax, (su[i] - xopt[i]) / s[i])
        elif s[i] < 0:
            tmax = min(tmax, (sl[i] - xopt[i]) / s[i])
    tmax = max(tmax, 0.0)
    sHs = s.dot(H).dot(s)
    gs = g.dot(s)
    t = tmax if sHs <= 0 else min(tmax, -gs / sHs)
    _LAST_CAUCHY[0] = t * s
    return t * gs + 0.5 * t * t * sHs


_LAST_CAUCHY = [None]


def q_exact(g, H, d):
    """g'd + d'Hd/2 in exact rational arithmetic (the float evaluation carries an error of order eps*||H||*||d||^2, which dwarfs
    the quantities compared when the gradient is tiny and the step long: multi-seed protocol, seed 3, a false alarm of the float form)."""
    from fractions import Fraction as Fr
    fd = [Fr(float(v)) for v in d]
    fg = [Fr(float(v)) for v in g]
    n = len(fd)
    q = sum(a * b for a, b in zip(fg, fd))
    q += Fr(1, 2) * sum(fd[i] * Fr(float(H[i, j])) * fd[j] for i in range(n) for j in range(n))
    return float(q)


def run(case):
    res = CaseResult()
    xopt, g, H, sl, su, delta = build(case)
    try:
        d, gnew, crvmin = trsbox(xopt.copy(), g.copy(), H.copy(), sl.copy(), su.copy(), delta)
    except Exception as e:  # the routine accepts every input in this domain
        res.fail("C12.returns", "%s: %s" % (type(e).__name__, e))
        res.nontrivial = True
        return res
    d = np.asarray(d, dtype=float)
    if d.shape != xopt.shape or not np.all(np.isfinite(d)):
        res.fail("C12.box", "step not finite / wrong shape: %r" % (d,))
        return res
    lo_s, up_s = sl - xopt, su - xopt
    if not (np.all(d >= lo_s) and np.all(d <= up_s)):
        worst = max(np.max(lo_s - d), np.max(d - up_s))
        res.fail("C12.box", "step leaves the box by %r" % worst)
    nd = np.linalg.norm(d)
    # ux: the representation error of the point xopt + d forced by float64 (the routine returns xnew - xopt with
    # xnew clipped to the box); zero when xopt = 0. Every tolerance below is "the statement's figure + this rounding".
    mags = [np.max(np.abs(xopt))] + [np.max(np.abs(v[np.abs(v) < 1e19])) for v in (sl, su) if np.any(np.abs(v) < 1e19)]
    ux = 4.0 * np.sqrt(len(d)) * float(np.spacing(max(mags))) if max(mags) > 0 else 0.0
    normH = np.linalg.norm(H, 2) if H.size else 0.0
    normg = np.linalg.norm(g)
    res.check("C12.ball", nd, delta * (1.0 + 1e-8) + ux, "||d|| (delta=%r)" % delta)
    gd = g.dot(d)
    dHd = d.dot(H).dot(d)
    q = gd + 0.5 * dHd
    scale = abs(gd) + 0.5 * abs(dHd)
    tol_q = 1e-12 * scale + ux * (normg + normH * nd)
    if tol_q > 0:
        res.margin("C12.no_increase", max(q, 0.0) / tol_q)
    if not (q <= tol_q):
        q = q_exact(g, H, d)         # verdict only from the exactly evaluated quadratic
        res.count("rejudged-exactly")
    if not (q <= tol_q):
        res.fail("C12.no_increase", "q(d)=%r tol=%r" % (q, tol_q))
    qc = cauchy_value(xopt, g, H, sl, su, delta)
    tol_c = 1e-10 * abs(qc) + ux * (normg + normH * delta)
    if tol_c > 0:
        res.margin("C12.cauchy", max(q - qc, 0.0) / tol_c)
    if not (q <= qc + tol_c + 1e-300):
        q = q_exact(g, H, d)
        if _LAST_CAUCHY[0] is not None:
            qc = q_exact(g, H, _LAST_CAUCHY[0])
        res.count("rejudged-exactly")
    if not (q <= qc + tol_c + 1e-300):
        res.fail("C12.cauchy", "q(d)=%r > q(cauchy)=%r tol=%r" % (q, qc, tol_c))
    gref = g + H.dot(d)
    gscale = normg + normH * nd
    err = np.linalg.norm(np.asarray(gnew) - gref)
    tol_g = 1e-9 * gscale + ux * normH
    if tol_g > 0:
        res.check("C12.gnew", err, tol_g, "||gnew-(g+Hd)||")
    elif err != 0:
        res.fail("C12.gnew", "gnew differs although g=0,d=0")
    active = bool(np.any(d <= lo_s) or np.any(d >= up_s))
    onball = nd >= delta * (1 - 1e-6)
    res.classes.append("H:" + case["kind"])
    if active:
        res.classes.append("bound-active-at-step")
    if onball:
        res.classes.append("on-ball")
    if crvmin == 0.0 and onball:
        res.classes.append("alt-step")
    if nd == 0.0:
        res.classes.append("zero-step")
    res.nontrivial = active or onball or case["kind"] != "psd"
    return res


PROFILES = {"trsbox": Profile("trsbox", cases, run, quick=60000, thorough=1000000, timeout=60, fuzz=(1500, 60000))}
KNOWN = {}
