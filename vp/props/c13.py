"""C13 - geometry and convex-constrained step solvers stay inside their regions."""
import math
import numpy as np
from hypothesis import strategies as st

from .. import core
from ..core import CaseResult, Profile
from .. import scenario as sc

core.import_dfols()
from dfols.trust_region import trsbox_geometry, ctrsbox_pgd, ctrsbox_geometry, ctrsbox_sfista  # noqa: E402
from dfols.controller import Controller  # noqa: E402
from dfols.params import ParameterList  # noqa: E402
from dfols.util import model_value, dykstra  # noqa: E402
import dfols.controller as _C  # noqa: E402
import dfols.trust_region as _T  # noqa: E402

PROP = "C13"
LEVEL = "exploration"
RULE = ("Three generated campaigns. (a) 'geometry': direct calls trsbox_geometry(xbase, c, g, lower, upper, Delta), n<=6, c in "
        "{0, 1, drawn}, g over 7 decades with zero and tiny (down to 1e-13) components, Delta over 5 decades, each box side drawn from {degenerate (on "
        "xbase), 1e-3, 0.3, 1, 30 times Delta, absent}, a sixth of the boxes centred on xbase up to a relative asymmetry of 1e-11..1e-6; global optimality against a clipped-ray bisection reference. "
        "(b) 'convex': ctrsbox_pgd / ctrsbox_geometry / ctrsbox_sfista with 1-3 balls/half-spaces/boxes containing the centre "
        "(centre in the interior, on the boundary, or with the boundaries of several sets passing through it), PSD/zero/low-rank H, L1/L2 regulariser for S-FISTA. (c) 'regstep': "
        "Controller.trust_region_step on real Controller+Model objects built on n+1 coordinate points with an L1/L2 regulariser, "
        "at random points and at (perturbed) regularised stationary points where the raw S-FISTA step is slightly uphill. "
        "Non-trivial = (a) a box side active at the solution, (b) a user set active at the step or the step on the ball, "
        "(c) the raw sub-solver reduction was negative (the zero-step substitution mattered). Distinct = SHA-1.")
ASSUMPTIONS = ["geometry reference: the minimiser of g's over box and ball is s(t)=clip(-t*g, a, b) on the ray t>=0; t found by "
               "200 bisection steps on ||s(t)|| = Delta",
               "box tolerance 1e-12*(1+|x|) per coordinate as stated (the routine widens degenerate sides by 1e-14)",
               "predicted reduction recomputed by the harness as h(xk) - [g'd + d'Hd/2 + h(xk+d)]; tolerance 1e-12*(|h|+|g'd|+|d'Hd|/2)"]


# --------------------------------------------------------------------------------------------- (a)
sidev = st.sampled_from([0.0, 0.0, 1e-3, 0.3, 1.0, 30.0, 1e20])


@st.composite
def geom_cases(draw):
    n = draw(st.integers(1, 6))
    eg = draw(st.integers(-3, 3))
    g = []
    for _ in range(n):
        v = draw(sc.g8)
        if draw(st.integers(0, 5)) == 0:
            v = 0.0
        elif draw(st.integers(0, 5)) == 0:
            v = v * 10.0 ** -draw(st.integers(4, 10))     # tiny (not zero) components: down to 1e-13
        g.append(v * 10.0 ** eg)
    c = draw(st.sampled_from([0.0, 1.0, 1.0, None]))
    if c is None:
        c = draw(sc.g8)
    Delta = 10.0 ** draw(st.integers(-4, 1)) * draw(st.sampled_from([1.0, 2.5, 7.0]))
    xs = draw(st.sampled_from([0.0, 1.0, 1.0, 100.0]))
    lo = [draw(sidev) for _ in range(n)]
    up = [draw(sidev) for _ in range(n)]
    if draw(st.integers(0, 5)) == 0:
        # a box that is centred on xbase up to a relative asymmetry of 1e-11 .. 1e-6 (symmetric bounds after a base shift are
        # centred only up to rounding): mirror-image shortcuts between the min and the max problem are wrong here
        asym = draw(st.sampled_from([1e-11, 1e-9, 1e-7, 1e-6]))
        lo = [v if v < 1e19 and v > 0 else 0.3 for v in lo]
        up = [v * (1.0 + asym) if draw(st.booleans()) else v / (1.0 + asym) for v in lo]
    return {"n": n, "g": g, "c": c, "Delta": Delta, "lo": lo, "up": up,
            "xbase": [draw(sc.g10) * xs for _ in range(n)]}


def lin_min(g, a, b, D):
    sinf = np.where(g > 0, a, np.where(g < 0, b, 0.0))
    with np.errstate(all="ignore"):
        if np.all(np.isfinite(sinf)) and np.linalg.norm(sinf) <= D:
            return float(g.dot(sinf))

    def s(t):
        return np.clip(-t * g, a, b)
    lo_t, hi_t = 0.0, 1.0
    k = 0
    while np.linalg.norm(s(hi_t)) < D and k < 2000:
        hi_t *= 2
        k += 1
    for _ in range(200):
        mid = 0.5 * (lo_t + hi_t)
        if np.linalg.norm(s(mid)) < D:
            lo_t = mid
        else:
            hi_t = mid
    return float(g.dot(s(lo_t)))


def run_geom(case):
    res = CaseResult()
    n = case["n"]
    g = np.array(case["g"], dtype=float)
    c = float(case["c"])
    D = float(case["Delta"])
    xb = np.array(case["xbase"], dtype=float)
    lo_c = np.array(case["lo"], dtype=float)
    up_c = np.array(case["up"], dtype=float)
    lower = np.where(lo_c < 1e19, xb - lo_c * D, -1e20)
    upper = np.where(up_c < 1e19, xb + up_c * D, 1e20)
    lower = np.minimum(lower, xb)
    upper = np.maximum(upper, xb)
    try:
        x = np.asarray(trsbox_geometry(xb.copy(), c, g.copy(), lower.copy(), upper.copy(), D), dtype=float)
    except Exception as e:
        res.fail("C13.geom_returns", "%s: %s" % (type(e).__name__, e))
        return res
    s = x - xb
    tol = 1e-12 * (1 + np.abs(x)) + 4 * np.spacing(np.abs(xb))
    if np.any(x < lower - tol) or np.any(x > upper + tol):
        res.fail("C13.geom_box", "point leaves the box by %r" % max(np.max(lower - x), np.max(x - upper)))
    ux = 4 * math.sqrt(n) * float(np.spacing(max(np.max(np.abs(xb)), 1e-300)))
    res.check("C13.geom_ball", float(np.linalg.norm(s)), D * (1 + 1e-8) + ux, "||s|| (Delta=%r)" % D)
    val = abs(c + g.dot(s))
    gx = float(np.linalg.norm(g)) * ux          # what the representation error of xbase+s can change in g's
    if val < abs(c) * (1 - 1e-12) - gx:
        res.fail("C13.geom_not_worse_than_zero", "|c+g's|=%r < |c|=%r" % (val, abs(c)))
    a, b = lower - xb, upper - xb
    vmin = lin_min(g, a, b, D)
    vmax = -lin_min(-g, a, b, D)
    best = max(abs(c + vmin), abs(c + vmax))
    if best > 0:
        res.margin("C13.geom_global", max(best - val - gx, 0.0) / (1e-6 * best))
    if val < best * (1 - 1e-6) - gx - 1e-300:
        res.fail("C13.geom_global", "|c+g's|=%r but the maximum over box and ball is %r" % (val, best))
    active = bool(np.any(x <= lower + tol) or np.any(x >= upper - tol))
    if active:
        res.classes.append("side-active")
    if np.linalg.norm(s) >= D * (1 - 1e-6):
        res.classes.append("on-ball")
    res.nontrivial = active
    return res


# --------------------------------------------------------------------------------------------- (b)
@st.composite
def convex_cases(draw):
    n = draw(st.integers(1, 4))
    mag = 10.0 ** draw(st.integers(-1, 1))
    z = [sc.dec(draw(sc.g10) * mag) for _ in range(n)]
    sets = draw(sc.draw_sets(n, z, mag, nmin=draw(st.sampled_from([1, 2, 2])), nmax=3, touching=True))
    where = draw(st.sampled_from(["interior", "interior", "boundary"]))
    if any((sp["kind"] == "ball" and abs(np.linalg.norm(np.array(z) - np.array(sp["c"])) - sp["r"]) <= 1e-9 * sp["r"]) or
           (sp["kind"] == "half" and abs(np.dot(sp["a"], z) - sp["beta"]) <= 1e-9 * (1 + abs(sp["beta"]))) for sp in sets):
        where = "touching"       # the boundary of one or more sets passes through the centre by construction
    xc = np.array(z)
    if where == "boundary":
        dirn = np.array([draw(sc.g8) for _ in range(n)])
        if not np.any(dirn):
            dirn[0] = 1.0
        dirn = dirn / np.linalg.norm(dirn)
        lo_t, hi_t = 0.0, 100.0 * mag
        for _ in range(80):
            mid = 0.5 * (lo_t + hi_t)
            if max(sc.set_distance(sp, xc + mid * dirn) for sp in sets) > 0:
                hi_t = mid
            else:
                lo_t = mid
        xc = xc + lo_t * dirn
    solver = draw(st.sampled_from(["pgd", "pgd", "geometry", "sfista"]))
    kind = draw(st.sampled_from(["psd", "psd", "lowrank", "zero"]))
    rows = {"psd": n + 1, "lowrank": max(1, n // 2), "zero": 0}[kind]
    B = [[draw(sc.g8) for _ in range(n)] for _ in range(rows)]
    if solver == "pgd" and kind == "zero":
        kind, B = "psd", [[1.0 if i == j else 0.0 for i in range(n)] for j in range(n)]
    case = {"n": n, "sets": sets, "x": [float(v) for v in xc], "where": where, "solver": solver, "kind": kind, "B": B,
            "eh": draw(st.integers(-2, 2)), "g": [draw(sc.g8) * 10.0 ** draw(st.integers(-2, 2)) for _ in range(n)],
            "c": draw(st.sampled_from([0.0, 1.0])), "Delta": mag * 10.0 ** draw(st.integers(-3, 1)) * draw(st.sampled_from([1.0, 3.0]))}
    if solver == "sfista":
        case["reg"] = {"kind": draw(st.sampled_from(["l1", "l2"])), "lam": 10.0 ** draw(st.integers(-2, 1))}
        case["max_iters"] = draw(st.sampled_from([20, 100]))
    return case


def hfun(reg):
    lam = float(reg["lam"])
    if reg["kind"] == "l1":
        return (lambda x, *a: lam * float(np.sum(np.abs(x)))), (lambda x, u, *a: np.sign(x) * np.maximum(np.abs(x) - lam * u, 0.0)), lam
    def prox(x, u, *a):
        nx = np.linalg.norm(x)
        return x * max(1.0 - lam * u / nx, 0.0) if nx > 0 else x.copy()
    return (lambda x, *a: lam * float(np.linalg.norm(x))), prox, lam


def run_convex(case):
    res = CaseResult()
    n = case["n"]
    x = np.array(case["x"], dtype=float)
    g = np.array(case["g"], dtype=float)
    B = np.array(case["B"], dtype=float).reshape(-1, n) if case["B"] else np.zeros((0, n))
    H = 2.0 * B.T.dot(B) * 10.0 ** case["eh"]
    D = float(case["Delta"])
    P = [sc.set_projector(sp) for sp in case["sets"]]
    solver = case["solver"]
    res.classes += ["solver:" + solver, "centre:" + case["where"]]
    try:
        if solver == "pgd":
            d = ctrsbox_pgd(x.copy(), g.copy(), H.copy(), P, D)[0]
        elif solver == "geometry":
            d = ctrsbox_geometry(x.copy(), float(case["c"]), g.copy(), P, D)
        else:
            h, prox, lam = hfun(case["reg"])
            lh = lam * (math.sqrt(n) if case["reg"]["kind"] == "l1" else 1.0)
            d = ctrsbox_sfista(x.copy(), g.copy(), H.copy(), P, D, h, lh, prox, func_tol=1e-3 * D, max_iters=case["max_iters"])[0]
    except Exception as e:
        res.fail("C13.convex_returns", "%s raised %s: %s" % (solver, type(e).__name__, str(e)[:120]))
        return res
    d = np.asarray(d, dtype=float)
    if not np.all(np.isfinite(d)):
        res.fail("C13.convex_norm", "%s returned a non-finite step %r" % (solver, d))
        return res
    ux = 4 * math.sqrt(n) * float(np.spacing(max(np.max(np.abs(x)), 1e-300)))
    res.check("C13.convex_norm", float(np.linalg.norm(d)), D * (1 + 1e-8) + ux, "%s: ||d|| (Delta=%r)" % (solver, D))
    on_ball = np.linalg.norm(d) >= D * (1 - 1e-6)
    act = any(sc.set_distance(sp, x + d * (1 + 1e-6) + 1e-9 * D * np.sign(d)) > 0 for sp in case["sets"])
    if on_ball:
        res.classes.append("on-ball")
    if act:
        res.classes.append("set-active")
    res.nontrivial = bool(on_ball or act)
    return res


# --------------------------------------------------------------------------------------------- (c)
@st.composite
def regstep_cases(draw):
    n = draw(st.integers(1, 3))
    m = draw(st.integers(n, n + 2))
    A = [[draw(sc.g8) for _ in range(n)] for _ in range(m)]
    a = np.array(A)
    if np.linalg.matrix_rank(a) < n:
        for i in range(n):
            a[i, i] += 1.0 + i
        A = a.tolist()
    return {"n": n, "m": m, "A": A, "b": [draw(sc.g8) for _ in range(m)],
            "reg": {"kind": draw(st.sampled_from(["l1", "l1", "l2"])), "lam": 10.0 ** draw(st.integers(-2, 0))},
            "mode": draw(st.sampled_from(["random", "stationary", "stationary", "stationary"])),
            "x": [draw(sc.g8) for _ in range(n)], "pert": draw(st.sampled_from([0.0, 1e-9, 1e-5])),
            "pdir": [draw(sc.g8) for _ in range(n)],
            "bounded": draw(st.booleans()), "w": [abs(draw(sc.g8)) for _ in range(n)], "wl": [draw(st.sampled_from([0.0, 1.0])) * abs(draw(sc.g8)) for _ in range(n)],
            "rho": 10.0 ** draw(st.integers(-6, 0)), "max_iters": draw(st.sampled_from([50, 150])),
            # 0-3 user sets (drawn around the origin, translated to the current iterate at run time; touching allowed): the step then
            # comes from S-FISTA over Dykstra, as in solve() with projections + regulariser (the bound box is appended last)
            "sets": draw(sc.draw_sets(n, [0.0] * n, 1.0, nmin=1, nmax=3, touching=True)) if draw(st.integers(0, 2)) == 0 else []}


_raw = [None]
_orig_sfista = _C.ctrsbox_sfista


def _sfista_wrap(*a, **k):
    out = _orig_sfista(*a, **k)
    _raw[0] = np.array(out[0], dtype=float, copy=True)
    return out


def run_regstep(case):
    res = CaseResult()
    n, m = case["n"], case["m"]
    A = np.array(case["A"], dtype=float)
    b = np.array(case["b"], dtype=float)
    h, prox, lam = hfun(case["reg"])
    lh = lam * (math.sqrt(n) if case["reg"]["kind"] == "l1" else 1.0)
    f = lambda x: A.dot(x) - b
    if case["mode"] == "stationary":
        L = 2 * np.linalg.norm(A, 2) ** 2
        x = np.zeros(n)
        for _ in range(3000):
            x = prox(x - 2 * A.T.dot(A.dot(x) - b) / L, 1 / L)
        xk = x + case["pert"] * np.array(case["pdir"], dtype=float)
    else:
        xk = np.array(case["x"], dtype=float)
    if case["bounded"]:
        xl = xk - np.array(case["wl"], dtype=float)
        xu = xk + 0.1 + np.array(case["w"], dtype=float)
    else:
        xl, xu = -1e20 * np.ones(n), 1e20 * np.ones(n)
    rho = float(case["rho"])
    npt = n + 1
    params = ParameterList(n, npt, 100)
    params("func_tol.max_iters", new_value=case["max_iters"])
    projs = []
    if case.get("sets"):
        for sp in case["sets"]:
            sp = dict(sp)
            if sp["kind"] == "ball":
                sp["c"] = (np.array(sp["c"]) + xk).tolist()
            elif sp["kind"] == "half":
                sp["beta"] = float(sp["beta"] + np.dot(sp["a"], xk))
            else:
                sp["l"] = (np.array(sp["l"]) + xk).tolist()
                sp["u"] = (np.array(sp["u"]) + xk).tolist()
            projs.append(sc.set_projector(sp))
        xlb, xub = xl.copy(), xu.copy()
        projs.append(lambda w: np.minimum(np.maximum(w, xlb), xub))       # as solve() does: the bound box is the last projector
        xl, xu = -1e20 * np.ones(n), 1e20 * np.ones(n)
    ctl = Controller(f, (), xk.copy(), f(xk), 1, xl, xu, projs, npt, rho, rho * 1e-3, 1, 1, 100, params, None, False,
                     h=h, lh=lh, argsh=(), prox_uh=prox, argsprox=())
    for k in range(1, npt):
        s = np.zeros(n)
        s[k - 1] = min(rho, (xu[k - 1] - xk[k - 1]) / 2)
        if projs:
            s = dykstra(projs, xk + s, max_iter=100, tol=1e-10) - xk
            if not np.any(s):
                s[k - 1] = -rho
        ctl.model.change_point(k, s, f(xk + s), k + 1)
    if not ctl.model.interpolate_mini_models_svd()[0]:
        res.count("interpolation-failed")
        return res
    _C.ctrsbox_sfista = _sfista_wrap
    _raw[0] = None
    try:
        crit = ctl.evaluate_criticality_measure(params)
        d, gopt, H, gnew, crv = ctl.trust_region_step(params, crit)
    except Exception as e:
        res.fail("C13.regstep_returns", "%s: %s" % (type(e).__name__, str(e)[:150]))
        return res
    finally:
        _C.ctrsbox_sfista = _orig_sfista
    xo = ctl.model.xopt(abs_coordinates=True)
    d = np.asarray(d, dtype=float)
    gd = float(gopt.dot(d))
    dHd = float(d.dot(H).dot(d))
    pred = h(xo) - (gd + 0.5 * dHd + h(xo + d))
    scale = abs(h(xo)) + abs(gd) + 0.5 * abs(dHd) + abs(h(xo + d)) + 1e-300
    res.margin("C13.regstep_reduction", max(-pred, 0.0) / (1e-12 * scale))
    if pred < -1e-12 * scale:
        res.fail("C13.regstep_reduction", "step handed to the main loop has predicted reduction %r (scale %r)" % (pred, scale))
    res.check("C13.regstep_norm", float(np.linalg.norm(d)), ctl.delta * (1 + 1e-8), "||d|| (delta=%r)" % ctl.delta)
    rawneg = False
    if _raw[0] is not None:
        r = _raw[0]
        rawpred = h(xo) - (float(gopt.dot(r)) + 0.5 * float(r.dot(H).dot(r)) + h(xo + r))
        rawneg = rawpred < 0
    res.classes.append("mode:" + case["mode"])
    res.classes.append("user-sets:%d" % len(case.get("sets") or []))
    if rawneg:
        res.classes.append("raw-step-uphill")
    res.nontrivial = bool(rawneg)
    return res


PROFILES = {"geometry": Profile("geometry", geom_cases, run_geom, quick=30000, thorough=1000000, timeout=60, fuzz=(1500, 60000)),
            "convex": Profile("convex", convex_cases, run_convex, quick=6000, thorough=150000, timeout=120),
            "regstep": Profile("regstep", regstep_cases, run_regstep, quick=400, thorough=8000, timeout=120)}
KNOWN = {}
