"""C18 - trust-region radii and the diagnostic table obey their invariants."""
import os, re, math
import numpy as np

from hypothesis import strategies as st

from .. import core
from ..core import CaseResult, Profile
from .. import scenario as sc, clauses as cl

PROP = "C18"
LEVEL = "exploration"
RULE = ("A sixteenth of the cases: long growing phases (n = 6..12, 1-3 initial directions, hinged residuals, every growing variant). Otherwise: Hypothesis scenarios as for C10 with diagnostics always on: rough objective families (HASHED, SCRIPT) next to smooth "
        "ones so that unsuccessful steps, geometry steps, rho reductions and restarts actually occur; noise/averaging, "
        "regression, growing (with and without reset_delta/reset_rho), soft/hard restarts with rhoend_scale <= 1, increase_npt, "
        "radius parameters, regulariser. Time-series invariants are evaluated over every row of soln.diagnostic_info; the "
        "documented column list is parsed from docs/diagnostic.rst. Non-trivial = the table shows >= 1 rho reduction and "
        ">= 1 delta increase, or >= 1 restart. Distinct = SHA-1 of the case JSON.")
ASSUMPTIONS = ["rhoend of run j = rhoend * restarts.rhoend_scale^j with j read from the row's nruns column; 1e-12 relative slack",
               "one row per iteration is checked as rows <= fit calls <= rows + runs (the iteration that ends a run may leave "
               "before it is recorded, which the documentation allows: 'the last row may not be fully populated')",
               "default rhobeg recomputed by the harness as documented (0.1*max(|x0|_inf,1), 0.1 when scaled)"]

_doc = os.path.join(core.REPO, "docs", "diagnostic.rst")
DOC_COLS = re.findall(r"^\* :code:`(\w+)` - ", open(_doc).read(), flags=re.M) if os.path.exists(_doc) else []
if len(DOC_COLS) < 15:
    raise core.HarnessError("could not parse the diagnostic column list from docs/diagnostic.rst")

PROF = sc.make_prof(fams=["lin", "sinlin", "rosen", "hashed", "hashed", "script", "hinge"], diag=1.0, reg=0.06, zero_resid=0.05,
                    maxfuns=["npt+1", 10, 30, 60, 150, 150], regression_bias=0.08,
                    # the radius updates have their own copies inside the growing phase (safety steps with their three variants,
                    # growing.gamma_dec, the reset at its end): a fifth of all cases grows its initial set
                    opts_list=[0, 0, 0, 1, 2, 3, 4, 4, 4, 4, 5, 6, 7, 8, 9, 10, 12, 13],
                    growing_list=["default", "perturb", "newdirs", "geom", "safety_reduce", "safety_reduce", "safety_reduce", "safety_full",
                                  "safety_full", "reset", "reset", "gamma_dec", "gamma_dec", "no_safety", "delta_scale", "full_rank_params"])


@st.composite
def cases(draw):
    """The shared scenarios plus, in 4% of the cases, 'far target' problems (r = x - c with c about 1e11 away, or rhobeg of order
    1e9): every step is very successful and full length, so delta doubles/quadruples until the documented 1e10 ceiling binds."""
    if draw(st.integers(0, 24)) == 0:
        n = draw(st.integers(1, 2))
        c = [draw(st.sampled_from([-2.0, 1.0, 3.0])) * 1e11 for _ in range(n)]
        return {"n": n, "m": n, "fam": "lin", "A": np.eye(n).tolist(), "b": c, "x0": [0.0] * n, "lower": None, "upper": None, "scaling": False,
                "npt": n + 1, "rhobeg": draw(st.sampled_from([None, 1.0, 4e9])), "rhoend": 1e-8, "maxfun": draw(st.sampled_from([40, 80])),
                "up": {"logging.save_diagnostic_info": True, "logging.save_poisedness": False}, "np_seed": 0, "tags": ["far-target"]}
    if draw(st.integers(0, 15)) == 0:
        # long growing phases: n = 6..12 with 1-3 initial directions and few (hinged: eventually flat) residuals, small rhobeg -
        # many iterations pass, with very successful steps, safety steps and radius updates, before the set is complete
        n = draw(st.integers(6, 12))
        k = draw(st.integers(1, 3))
        A = [[draw(sc.g8) for _ in range(n)] for _ in range(k)] + [[0.0] * n]
        g = draw(st.sampled_from(["safety_reduce", "safety_reduce", "safety_full", "default", "gamma_dec", "no_safety", "reset"]))
        up = {"logging.save_diagnostic_info": True, "logging.save_poisedness": False, "growing.ndirs_initial": draw(st.integers(1, 3))}
        up.update({"safety_reduce": {"growing.safety.reduce_delta": True}, "safety_full": {"growing.safety.full_geom_step": True}, "default": {},
                   "gamma_dec": {"growing.gamma_dec": 0.25}, "no_safety": {"growing.safety.do_safety_step": False},
                   "reset": {"growing.reset_delta": True, "growing.reset_rho": draw(st.booleans())}}[g])
        rb = draw(st.sampled_from([0.01, 0.1]))
        return {"n": n, "m": k + 1, "fam": draw(st.sampled_from(["hinge", "hinge", "lin"])), "A": A, "b": [-1.0] * (k + 1), "x0": [0.0] * n,
                "lower": None, "upper": None, "scaling": False, "npt": n + 1, "rhobeg": rb, "rhoend": rb * 10.0 ** -draw(st.sampled_from([2, 5])),
                "maxfun": draw(st.sampled_from([60, 150, 300])), "up": up, "np_seed": draw(st.integers(0, 2 ** 16)),
                "tags": ["long-growing", "growing:" + g]}
    return draw(sc.scenarios(PROF))


def run(case):
    res = CaseResult()
    o = sc.run_solve(case)
    s = o.soln
    res.classes.append("route:" + cl.route(o))
    res.classes += case["tags"]
    if o.exc is not None:
        res.count("exceptions")
    if s is None or s.flag == s.EXIT_INPUT_ERROR:
        return res
    df = s.diagnostic_info
    up = case["up"]
    if not up.get("logging.save_diagnostic_info"):
        res.count("diagnostics-not-requested")
        return res
    if df is None:
        res.fail("C18.table", "diagnostics requested but soln.diagnostic_info is None")
        return res
    want_cols = [c for c in DOC_COLS if not (c == "xk" and not up.get("logging.save_xk")) and not (c == "rk" and not up.get("logging.save_rk"))]
    if sorted(df.columns) != sorted(want_cols):
        res.fail("C18.columns", "columns %r differ from the documented %r" % (sorted(df.columns), sorted(want_cols)))
        return res
    nrows = len(df)
    runs_total = max(len(o.main_calls), 1) + len(o.soft_restarts)
    if not (nrows <= o.nfits <= nrows + runs_total):
        res.fail("C18.one_row_per_iteration", "%d rows but %d iterations (fit calls), %d runs" % (nrows, o.nfits, runs_total))
    if nrows == 0:
        return res
    rho = df["rho"].values.astype(float)
    delta = df["delta"].values.astype(float)
    runs = df["nruns"].values.astype(int)
    fk = df["fk"].values.astype(float)
    rhobeg = case["rhobeg"] if case["rhobeg"] is not None else (0.1 if case["scaling"] else 0.1 * max(max(abs(v) for v in case["x0"]), 1.0))
    scl = up.get("restarts.rhoend_scale", 1.0)
    rhoend_row = case["rhoend"] * scl ** runs
    if np.any(~(rho > 0)) or np.any(~(delta >= rho)):
        i = int(np.argmax(~((rho > 0) & (delta >= rho))))
        res.fail("C18.delta_ge_rho", "row %d: delta=%r rho=%r" % (i, delta[i], rho[i]))
    if np.any(rho > rhobeg * (1 + 1e-12)):
        i = int(np.argmax(rho > rhobeg * (1 + 1e-12)))
        res.fail("C18.rho_range", "row %d: rho=%r > rhobeg=%r" % (i, rho[i], rhobeg))
    if np.any(rho < rhoend_row * (1 - 1e-12)):
        i = int(np.argmax(rho < rhoend_row * (1 - 1e-12)))
        res.fail("C18.rho_range", "row %d: rho=%r < rhoend of run %d = %r" % (i, rho[i], runs[i], rhoend_row[i]))
    if np.any(delta > 1e10):
        res.fail("C18.delta_cap", "delta=%r exceeds 1e10" % float(np.max(delta)))
    det = sc.deterministic(case)
    # with averaging the stored value of a point is a running mean: equal samples of a deterministic function still move it by
    # an ulp as they are averaged in (seed 23 of the multi-seed protocol: an 'increase' of 2e-17); exact without averaging
    fk_slack = 16 * sc.EPS * 4 if case.get("nsamples") else 0.0
    rho_red = delta_inc = False
    for i in range(1, nrows):
        if runs[i] == runs[i - 1]:
            if rho[i] > rho[i - 1] and not up.get("growing.reset_rho"):
                res.fail("C18.rho_monotone", "row %d: rho increased from %r to %r within run %d" % (i, rho[i - 1], rho[i], runs[i]))
                break
            if rho[i] < rho[i - 1]:
                rho_red = True
            if delta[i] > delta[i - 1]:
                delta_inc = True
            if det and fk[i] > fk[i - 1] * (1 + fk_slack) + 1e-300:
                res.fail("C18.fk_monotone", "row %d: recorded best objective increased from %r to %r within run %d" % (i, fk[i - 1], fk[i], runs[i]))
                break
    if list(df["iters_total"].values) != list(range(nrows)):
        res.fail("C18.iteration_numbers", "iters_total is not 0,1,2,...: %r" % (list(df["iters_total"].values)[:10],))
    it = df["iter_this_run"].values.astype(int)
    for i in range(nrows):
        expect = 0 if (i == 0 or runs[i] != runs[i - 1]) else it[i - 1] + 1
        if it[i] != expect:
            res.fail("C18.iteration_numbers", "row %d: iter_this_run=%d, expected %d" % (i, it[i], expect))
            break
    for col, final in (("nf", s.nf), ("nx", s.nx), ("nruns", s.nruns)):
        v = df[col].values.astype(int)
        if np.any(np.diff(v) < 0) or v[-1] > final or v[0] < 0:
            res.fail("C18.counters", "column %s is not non-decreasing and bounded by the final value %r: %r" % (col, final, v[:12].tolist()))
    n = case["n"]
    maxnpt = up.get("restarts.max_npt", case["npt"]) if up.get("restarts.increase_npt") else case["npt"]
    npts = df["npt"].values.astype(int)
    if npts.min() < 2 or npts.max() > maxnpt:
        res.fail("C18.npt", "npt column ranges over [%d, %d], allowed [2, %d]" % (npts.min(), npts.max(), maxnpt))
    restarts = runs_total - 1
    if restarts:
        res.classes.append("restarted")
    if rho_red:
        res.classes.append("rho-reduced")
    if delta_inc:
        res.classes.append("delta-increased")
    res.nontrivial = bool((rho_red and delta_inc) or restarts)
    return res


PROFILES = {"solve": Profile("solve", cases, run, quick=4000, thorough=100000, timeout=120)}
KNOWN = {}
