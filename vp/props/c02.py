"""C02 - evaluation budget and evaluation counters are exact."""
from ..core import CaseResult, Profile
from .. import scenario as sc, clauses as cl

PROP = "C02"
LEVEL = "exploration"
RULE = ("Hypothesis scenarios as for C01 (all residual families incl. noisy and SCRIPT) with emphasis on tiny budgets "
        "(maxfun in {1,2,3,npt-1,npt,npt+1,10,30,60,150}), nsamples callbacks in 45% of the cases (constant 2..3, tables indexed by "
        "(iteration, run) with entries 0..3, or a rule on (delta, rho) whose answer changes within an iteration), noise flag, soft/hard restarts with/without increase_npt and use_old_rk. "
        "Observed: recorded calls, the log records 'Function eval i at point j', the interleaving of nsamples callbacks "
        "with evaluations, soln.nf/nx. Non-trivial = the budget was binding (nf == maxfun) or >= 1 restart happened or "
        "some point was sampled more than once. Distinct = SHA-1 of the case JSON.")
ASSUMPTIONS = ["evaluation/point numbers are read from dfols' own INFO log line (util.py), as the property prescribes",
               "samples clause: a point's sample count must equal max(v,1) for one of the values v the callback returned "
               "since the previous point's first evaluation (or the latest value if it was not asked in between); only the "
               "last point of a budget-exhausted run may have fewer"]

PROF = sc.make_prof(maxfuns=[1, 2, 3, "npt-1", "npt", "npt+1", 10, 30, 60, 150, 5, 7, 20, 45, 90], diag=0.2, avg_prob=0.45)


def run(case):
    res = CaseResult()
    o = sc.run_solve(case)
    cl.c02(case, o, res)
    res.classes.append("route:" + cl.route(o))
    res.classes += case["tags"]
    if o.exc is not None:
        res.count("exceptions")
    s = o.soln
    restarts = max(len(o.main_calls) - 1, 0) + len(o.soft_restarts)
    binding = s is not None and case["maxfun"] is not None and len(o.calls) == case["maxfun"]
    multi = s is not None and s.flag != s.EXIT_INPUT_ERROR and s.nx < s.nf
    if binding:
        res.classes.append("budget-binding")
        if len(o.calls) < case["npt"]:
            res.classes.append("exit-during-init")
    if restarts:
        res.classes.append("restarted")
    if multi:
        res.classes.append("multi-sample")
    res.nontrivial = bool(binding or restarts or multi)
    return res


ENUM_PROF = sc.make_prof(maxfuns=[12, 20, 30, 45], diag=0.1, avg_prob=0.5, print_progress=0.0, route_bias=0.0, rhoend_exps=[1, 1, 2, 3])


def run_enum(case):
    """Budget enumeration: the scenario re-run with maxfun = 1..nf; every C02 clause at every place the budget can end."""
    res = CaseResult()
    nf, ref = sc.budget_enumeration(case, cl.c02, res)
    res.classes += case["tags"]
    restarts = max(len(ref.main_calls) - 1, 0) + len(ref.soft_restarts)
    if restarts:
        res.classes.append("restarted")
    res.nontrivial = bool(nf > case["npt"] + 2)
    return res


PROFILES = {"solve": Profile("solve", lambda: sc.scenarios(PROF), run, quick=20000, thorough=300000, timeout=120),
            "budget-enum": Profile("budget-enum", lambda: sc.scenarios(ENUM_PROF), run_enum, quick=160, thorough=5000, timeout=600)}
KNOWN = {}
