"""C05 - linear least-squares problems are solved to global optimality."""
import math
import numpy as np
from hypothesis import strategies as st
from scipy.optimize import lsq_linear

from .. import core
from ..core import CaseResult, Profile
from .. import scenario as sc, clauses as cl

PROP = "C05"
LEVEL = "exploration"
RULE = ("Hypothesis cases: r = A x - b, n<=8, m > n / m = n / m < n (full rank), entries on a dyadic grid with cond(A) <= 1e3 "
        "enforced by construction (diagonal repair, never rejection), ||A|| and ||b|| over two decades, x0 scale 0.1..1000; box sides from 0.01 to tens; no "
        "bounds / box around the unconstrained minimiser / box that cuts it off (active set non-empty) / box around x0; scaling "
        "on/off; npt in n+1..2n+1; default rhoend and budget. Reference optimum from scipy lsq_linear(bvls) (lstsq when "
        "unbounded), certified by a KKT check written in the harness; uncertified references are discarded and counted. "
        "Non-trivial = a bound is active at the reference solution, or m < n, or npt > n+1, or scaling. Distinct = SHA-1.")
ASSUMPTIONS = ["reference: scipy.optimize.lsq_linear / numpy lstsq + harness KKT certificate (projected gradient <= 1e-8 scale)",
               "tolerance 1e-6*(1+f*) as stated, both sides, also for the objective recomputed at soln.x",
               "soln.x must lie in the box exactly (shared with C01)"]


def repair_cond(A, limit=1e3):
    A = np.array(A, dtype=float)
    m, n = A.shape
    k = 0
    while (np.linalg.matrix_rank(A) < min(m, n) or np.linalg.cond(A) > limit) and k < 60:
        for i in range(min(m, n)):
            A[i, i] += (1.0 if A[i, i] >= 0 else -1.0) * 2.0 ** (k // 6 - 1)
        k += 1
    return A


def reference(case):
    n = case["n"]
    A = np.array(case["A"], dtype=float)
    b = np.array(case["b"], dtype=float)
    lo, up = sc.user_bounds(case)
    if not (np.any(np.isfinite(lo)) or np.any(np.isfinite(up))):
        x = np.linalg.lstsq(A, b, rcond=None)[0]
    else:
        try:
            x = lsq_linear(A, b, bounds=(lo, up), method="bvls", tol=1e-15, max_iter=2000).x
        except Exception:
            x = lsq_linear(A, b, bounds=(lo, up), method="trf", tol=1e-15, max_iter=5000).x
        x = np.minimum(np.maximum(x, lo), up)
    g = 2.0 * A.T.dot(A.dot(x) - b)
    scale = 1.0 + np.linalg.norm(A, 2) * (np.linalg.norm(A, 2) * np.linalg.norm(x) + np.linalg.norm(b))
    viol = 0.0
    for i in range(n):
        if x[i] <= lo[i] and g[i] >= 0:
            continue
        if x[i] >= up[i] and g[i] <= 0:
            continue
        viol = max(viol, abs(g[i]))
    return x, float(np.sum((A.dot(x) - b) ** 2)), bool(viol <= 1e-8 * scale)


@st.composite
def cases(draw):
    n = draw(st.sampled_from([1, 2, 3, 4, 5, 6, 2, 3, 4, 5, 6, 7, 8]))
    shape = draw(st.sampled_from(["over", "over", "square", "under"]))
    m = n + draw(st.integers(1, 3)) if shape == "over" else n if shape == "square" else max(1, n - draw(st.integers(1, 2)))
    sa = 10.0 ** draw(st.integers(-1, 1))
    A = repair_cond([[draw(sc.g8) for _ in range(n)] for _ in range(m)]) * sa
    b = [draw(sc.g8) * 10.0 ** draw(st.integers(-1, 1)) for _ in range(m)]
    xs = draw(st.sampled_from([0.1, 1.0, 10.0, 100.0, 1000.0]))
    x0 = [sc.dec(draw(sc.g10) * xs) for _ in range(n)]
    case = {"n": n, "m": m, "fam": "lin", "A": A.tolist(), "b": b, "x0": x0, "lower": None, "upper": None, "scaling": False,
            "npt": draw(st.integers(n + 1, min(2 * n + 1, (n + 1) * (n + 2) // 2))), "rhobeg": None, "rhoend": None,
            "maxfun": None, "up": {}, "np_seed": 0, "tags": ["shape:" + shape]}
    box = draw(st.sampled_from(["none", "around", "cut", "cut", "x0"]))
    if box != "none":
        xu = np.linalg.lstsq(np.array(case["A"]), np.array(b), rcond=None)[0]
        # sides from 0.01 (narrower than the default rhobeg in raw units: the documented reason to scale) to tens
        w = [(0.5 + abs(draw(sc.g8))) * max(1.0, abs(xu[i]) * 0.1) * draw(st.sampled_from([1.0, 1.0, 1.0, 1.0, 0.05, 0.01])) for i in range(n)]
        if box == "around":
            lo = [xu[i] - w[i] for i in range(n)]
            up = [xu[i] + w[i] for i in range(n)]
        elif box == "cut":
            lo = [xu[i] + 0.25 * w[i] if draw(st.booleans()) else xu[i] - w[i] for i in range(n)]
            up = [lo[i] + 2 * w[i] for i in range(n)]
        else:
            lo = [x0[i] - w[i] for i in range(n)]
            up = [x0[i] + w[i] for i in range(n)]
        case["lower"] = [sc.dec(v) for v in lo]
        case["upper"] = [sc.dec(v) for v in up]
        case["scaling"] = draw(st.booleans())
        if not case["scaling"]:
            gap = min(case["upper"][i] - case["lower"][i] for i in range(n))
            if gap < 2 * 0.1 * max(max(abs(v) for v in x0), 1.0):
                case["rhobeg"] = gap / 2.0
    case["tags"] += ["box:" + box] + (["scaled"] if case["scaling"] else [])
    return case


def run(case):
    res = CaseResult()
    res.classes += case["tags"]
    xs, fs, certified = reference(case)
    if not certified:
        res.count("reference-not-certified")
        return res
    o = sc.run_solve(case)
    if o.exc is not None or o.livelock or o.soln is None:
        res.fail("C05.success", "solve did not return a result: %r" % (o.exc,))
        return res
    s = o.soln
    res.classes.append("route:" + cl.route(o))
    if s.flag == s.EXIT_INPUT_ERROR:
        res.fail("C05.success", "input error: %s" % s.msg)
        return res
    lo, up = sc.user_bounds(case)
    x = np.asarray(s.x, dtype=float)
    if np.any(x < lo) or np.any(x > up):
        res.fail("C05.feasible", "soln.x violates the bounds by %r" % max(np.max(lo - x), np.max(x - up)))
    tol = 1e-6 * (1 + fs)
    obj = float(s.obj)
    res.margin("C05.optimal", abs(obj - fs) / tol)
    if not (abs(obj - fs) <= tol):
        res.fail("C05.optimal", "soln.obj=%r, certified minimum f*=%r (tol %r)" % (obj, fs, tol))
    rec = float(np.sum(sc.smooth_resid(case, x) ** 2))
    if not (abs(rec - fs) <= tol):
        res.fail("C05.optimal", "objective recomputed at soln.x=%r, f*=%r (tol %r)" % (rec, fs, tol))
    if s.flag != s.EXIT_SUCCESS:
        res.fail("C05.success", "flag %r: %s" % (s.flag, s.msg))
    active = bool(np.any(xs <= lo) or np.any(xs >= up))
    if active:
        res.classes.append("bound-active")
    res.nontrivial = bool(active or case["m"] < case["n"] or case["npt"] > case["n"] + 1 or case["scaling"])
    return res


def known_error_flag_at_optimum(case, clause, detail):
    # identified by exit route: the 'trust region step gave model increase' error or the 'singular matrix in geometry step'
    # error; optimality is judged by C05.optimal, which this entry does not touch
    return (detail.startswith("flag -2:") and "model increase" in detail) or \
        (detail.startswith("flag -3:") and "Singular matrix encountered in geometry step" in detail)


PROFILES = {"solve": Profile("solve", cases, run, quick=6000, thorough=60000, timeout=300)}
KNOWN = {"error-flag-at-optimum": known_error_flag_at_optimum}
