"""C09 - general convex constraints hold at every evaluation up to Dykstra's tolerance."""
import math
import numpy as np
from hypothesis import strategies as st

from .. import core
from ..core import CaseResult, Profile
from .. import scenario as sc, clauses as cl

PROP = "C09"
LEVEL = "exploration"
RULE = ("Hypothesis scenarios with 1-3 user sets (balls, half-spaces, boxes) built around a drawn interior point with a "
        "drawn margin (non-empty interior by construction), n in 2..4, with and without additional bounds, x0 in {interior "
        "point, feasible, infeasible far away, infeasible by 1e-7 relative, on the boundary}, restarts on/off, "
        "dykstra.d_tol / dykstra.max_iters default or drawn, npt = n+1. The projection routine is observed through counting "
        "projector proxies (stop-by-rule vs sweep cap reconstructed from the proxies alone); distances to the sets are "
        "computed by the harness from the set parameters; every projection call is also checked for having stopped early only "
        "when its stopping quantity was below the configured (or default) tolerance. Non-trivial = an infeasible x0, or some evaluated point with >= 2 "
        "constraint sets active. Distinct = SHA-1 of the case JSON.")
ASSUMPTIONS = ["every evaluated point is looked up (bit-identical) among the outputs of the logged projection calls; the lookup "
               "only selects the tolerance class: points produced by a call that hit the sweep cap are counted, not judged; "
               "points matching no logged call are judged with the default tolerance",
               "p = number of user sets + 1 (the bound box is always appended, with 1e20 sides when no bounds are given)",
               "projectors supplied by the harness are exact Euclidean projectors"]

fam_prof = sc.make_prof(fams=["lin", "sinlin", "hashed", "rosen"], nmax=4, mmax=4, bounds=["none"], avg=False, noise=False,
                        restarts=False, opts=False, noise_flag=False, diag=0.0, zero_resid=0.0, npt_extra=False)


def has_bounds(case):
    return case.get("lower") is not None or case.get("upper") is not None


def box_spec(case):
    n = case["n"]
    return {"kind": "box", "l": list(case["lower"]) if case.get("lower") is not None else [-1e20] * n,
            "u": list(case["upper"]) if case.get("upper") is not None else [1e20] * n}


@st.composite
def cases(draw):
    base = draw(sc.scenarios(fam_prof))
    n = base["n"]
    if n < 2:
        n = 2
        base["n"] = 2
        base["x0"] = [base["x0"][0], 0.25]
        if "A" in base:
            base["A"] = [row + [0.5] for row in base["A"]]
        base["npt"] = 3
    mag = 10.0 ** draw(st.integers(-1, 1))
    zs = draw(st.sampled_from([1.0, 1.0, 0.1, 0.01]))       # centres near zero too: bounds then differ from x0 by large factors (no exact subtraction)
    z = [sc.dec(draw(sc.g10) * mag * zs) for _ in range(n)]
    base["proj"] = draw(sc.draw_sets(n, z, mag))
    tags = []
    if draw(st.booleans()):
        w = [mag * (0.05 + abs(draw(sc.g8))) for _ in range(n)]
        w2 = [mag * (0.05 + abs(draw(sc.g8))) for _ in range(n)]
        base["lower"] = [sc.dec(z[i] - w[i]) for i in range(n)]
        base["upper"] = [sc.dec(z[i] + w2[i]) for i in range(n)]
        tags.append("extra-bounds")
        sides = draw(st.sampled_from(["both", "both", "lower", "upper", "mixed"]))
        if sides == "lower":
            base["upper"] = None                      # bounds=(lower, None): documented one-sided form
        elif sides == "upper":
            base["lower"] = None
        elif sides == "mixed":
            for i in range(n):
                sd = draw(st.sampled_from(["both", "l", "u"]))
                if sd == "l":
                    base["upper"][i] = 1e20           # the documented 'no bound' sentinel
                elif sd == "u":
                    base["lower"][i] = -1e20
        if sides != "both":
            tags.append("bounds:" + sides)
    else:
        base["lower"] = base["upper"] = None
    base["scaling"] = False
    # a feasible point: z; x0 classes
    xc = draw(st.sampled_from(["z", "far", "far", "hair", "moderate", "boundary"]))
    zz = np.array(z)
    dirn = np.array([draw(sc.g8) for _ in range(n)])
    if not np.any(dirn):
        dirn[0] = 1.0
    dirn = dirn / np.linalg.norm(dirn)
    if xc == "z":
        x0 = zz
    elif xc == "far":
        x0 = zz + dirn * mag * draw(st.sampled_from([5.0, 30.0]))
    elif xc == "moderate":
        x0 = zz + dirn * mag * 0.5
    else:
        # walk from z along dirn to the boundary of the intersection (bisection on the harness's own distance function)
        specs = list(base["proj"]) + ([box_spec(base)] if has_bounds(base) else [])
        lo_t, hi_t = 0.0, 100.0 * mag
        for _ in range(80):
            mid = 0.5 * (lo_t + hi_t)
            if max(sc.set_distance(sp, zz + mid * dirn) for sp in specs) > 0:
                hi_t = mid
            else:
                lo_t = mid
        xb = zz + lo_t * dirn
        x0 = xb if xc == "boundary" else xb + dirn * 1e-7 * max(1.0, float(np.max(np.abs(xb))))
    base["npt"] = n + 1
    rb = mag * draw(st.sampled_from([0.05, 0.1, 0.3]))
    if has_bounds(base) and draw(st.integers(0, 3)) == 0:
        # one coordinate on / a hair or a fraction of rhobeg inside / outside a finite bound (the placement classes of C01/C14):
        # initial coordinate steps are then clipped onto the bound
        bx = box_spec(base)
        i = draw(st.integers(0, n - 1))
        side = draw(st.sampled_from(["l", "u"]))
        bval = bx["l"][i] if side == "l" else bx["u"][i]
        if abs(bval) < 1e19:
            f = draw(st.sampled_from([0.0, 0.005, 0.011, 0.5, 0.99, -0.3]))
            x0 = np.array(x0, dtype=float)
            x0[i] = bval + (f * rb if side == "l" else -f * rb)
            xc = xc + "+near-bound"
    base["x0"] = [float(v) for v in x0]
    tags.append("x0:" + xc)
    base["rhobeg"] = rb
    base["rhoend"] = rb * 10.0 ** (-draw(st.sampled_from([2, 3, 5])))
    base["maxfun"] = draw(st.sampled_from([n + 2, 12, 25, 40]))
    up = {}
    if draw(st.integers(0, 2)) == 0:
        up["restarts.use_restarts"] = True
        if draw(st.booleans()):
            up["restarts.use_soft_restarts"] = False
        elif draw(st.booleans()):
            up["restarts.increase_npt"] = True           # soft restarts append points to the set (npt grows beyond n+1 only there)
            up["restarts.max_npt"] = n + 1 + draw(st.integers(1, 2))
            base["rhoend"] = rb * 1e-2
            tags.append("soft-restart-adds-points")
        tags.append("restarts")
    if draw(st.integers(0, 3)) == 0:
        up["dykstra.d_tol"] = draw(st.sampled_from([1e-12, 1e-8, 1e-6]))
    if draw(st.integers(0, 5)) == 0:
        up["dykstra.max_iters"] = draw(st.sampled_from([20, 1000]))
    base["up"] = up
    base["tags"] = sorted(tags)
    return base


def active_count(specs, x):
    cnt = 0
    for sp in specs:
        if sp["kind"] == "ball":
            if np.linalg.norm(x - np.array(sp["c"])) >= sp["r"] * (1 - 1e-9):
                cnt += 1
        elif sp["kind"] == "half":
            a = np.array(sp["a"])
            if a.dot(x) >= sp["beta"] - 1e-9 * np.linalg.norm(a) * max(1.0, np.linalg.norm(x)):
                cnt += 1
        else:
            lo, up = np.array(sp["l"]), np.array(sp["u"])
            if np.any(x <= lo + 1e-9 * np.maximum(1, np.abs(lo))) or np.any(x >= up - 1e-9 * np.maximum(1, np.abs(up))):
                cnt += 1
    return cnt


def run(case):
    res = CaseResult()
    log = sc.DykstraLog()
    o = sc.run_solve(case, dykstra_log=log)
    specs = list(case["proj"])
    has_bounds = globals()["has_bounds"](case)
    if has_bounds:
        specs_all = specs + [box_spec(case)]
    else:
        specs_all = specs
    p_doc = len(case["proj"]) + 1
    x0 = np.array(case["x0"], dtype=float)
    infeasible0 = max(sc.set_distance(sp, x0) for sp in specs_all) > 0
    res.classes += case["tags"]
    res.classes.append("route:" + cl.route(o))
    if o.exc is not None:
        res.count("exceptions")
    outs = {}
    for c in log.calls:
        outs.setdefault(c["out"].tobytes(), c)
    lo, up = sc.user_bounds(case)
    max_active = 0
    # every projection call must have been made with (at most) the configured or default tolerance and (at least) the
    # configured or default sweep cap, may stop early only when its rule is met and must stop as soon as it is met
    conf_tol = max(case["up"].get("dykstra.d_tol", 1e-10), 1e-10)
    conf_cap = min(case["up"].get("dykstra.max_iters", 100), 100)
    for c in log.calls:
        if c["sweeps"] == 0:
            continue
        met = c["last"] < conf_tol
        if not met and c["sweeps"] < conf_cap:
            res.fail("C09.stopping_rule", "a projection call stopped after %d sweeps (cap %d) although its stopping quantity %r is not "
                     "below the tolerance %r [call made with tol=%r, max_iter=%r]" % (c["sweeps"], conf_cap, c["last"], conf_tol, c["tol"], c["max_iter"]))
            break
        if c["early"] and c["tol"] >= 1e-10 * (1 - 1e-12):
            res.fail("C09.stopping_rule", "a projection call went on although its stopping quantity %r was already below its tolerance %r"
                     % (c["early"][0], c["tol"]))
            break
    for i, (x, _) in enumerate(o.calls):
        c = outs.get(x.tobytes())
        if i == 0 and not infeasible0 and c is None:
            res.count("first-point-is-x0")
            c = {"by_rule": True, "tol": 1e-10, "p": p_doc}
        if c is None:
            res.count("eval-not-a-logged-output")
            c = {"by_rule": True, "tol": 1e-10, "p": p_doc}
        if has_bounds and (np.any(x < lo) or np.any(x > up)):
            res.fail("C09.box_exact", "evaluation %d violates the bounds by %r" % (i + 1, max(np.max(lo - x), np.max(x - up))))
        if not c["by_rule"]:
            res.count("points-from-capped-projection")
            continue
        res.count("points-from-rule-stopped-projection")
        bound = math.sqrt(p_doc * c["tol"])
        dmax = max(sc.set_distance(sp, x) for sp in specs_all)
        res.margin("C09.feasible", dmax / bound)
        if dmax > bound:
            res.fail("C09.feasible", "evaluation %d is %r away from a constraint set; bound sqrt(p*tol)=%r" % (i + 1, dmax, bound))
        max_active = max(max_active, active_count(specs_all, x))
    if infeasible0 and o.calls:
        first = o.calls[0][0]
        if first.tobytes() not in outs:
            res.fail("C09.x0_projected", "x0 is infeasible (distance %r) but the first evaluation is not an output of the projection routine"
                     % max(sc.set_distance(sp, x0) for sp in specs_all))
        if np.array_equal(first, x0):
            res.fail("C09.x0_projected", "infeasible x0 was evaluated unchanged")
    if infeasible0:
        res.classes.append("x0-infeasible")
    if max_active >= 2:
        res.classes.append("two-sets-active")
    res.nontrivial = bool(o.calls and (infeasible0 or max_active >= 2))
    return res


@st.composite
def init_cases(draw):
    """Initial-set campaign: the same scenarios with the budget cut to the initial interpolation set (n+1 evaluations, a fraction of
    a second each), always with extra bounds and decimal-literal starts next to them - thousands of first points per run, for the
    rounding-level clauses (box exact, x0 replaced by its projection) that a few hundred full runs rarely exercise."""
    c = draw(cases())
    n = c["n"]
    for _ in range(3):
        if has_bounds(c):
            break
        c = draw(cases())
        n = c["n"]
    if has_bounds(c):
        bx = box_spec(c)
        rb = c["rhobeg"]
        x0 = list(c["x0"])
        for i in range(n):
            if draw(st.booleans()):
                side = draw(st.sampled_from(["l", "u"]))
                bval = bx["l"][i] if side == "l" else bx["u"][i]
                if abs(bval) < 1e19:
                    f = draw(st.sampled_from([0.0, 0.005, 0.011, 0.3, 0.5, 0.7, 0.99]))
                    x0[i] = sc.dec(bval + (f * rb if side == "l" else -f * rb), 3)      # a short decimal literal, far (relatively) from the bound
        c["x0"] = [float(v) for v in x0]
    c["maxfun"] = n + 1
    c["up"] = {k: v for k, v in c["up"].items() if not k.startswith("restarts.")}
    c["tags"] = sorted(set(c["tags"] + ["init-only"]))
    return c


PROFILES = {"solve": Profile("solve", cases, run, quick=500, thorough=12000, timeout=300),
            "init": Profile("init", init_cases, run, quick=3000, thorough=60000, timeout=120)}
KNOWN = {}
