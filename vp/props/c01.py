"""C01 - bound constraints are never violated at any evaluation point."""
from ..core import CaseResult, Profile
from .. import scenario as sc, clauses as cl

PROP = "C01"
LEVEL = "exploration"
RULE = ("Hypothesis scenarios (residual families LIN/SINLIN/ROSEN/HASHED/SCRIPT/BOXDOMAIN, optionally noisy) x bounds "
        "(box / lower only / upper only / mixed with 1e20 sentinels / scaled; lower and upper drawn independently as "
        "6-digit decimals at magnitudes 1e-2..1e3; rhobeg = gap/(2(1+t)), t in {0, 2^-40, .5, 3, 100}) x x0 placement per "
        "coordinate (interior, on a bound, one ulp inside/outside, 0.5%..100% of rhobeg from it, far outside; both sides) "
        "x options (soft/hard restarts, npt growth, growing/random initial sets, regression steps, averaging, noise flag, "
        "radius parameters, L1/L2 regulariser) x tiny and normal budgets. A recording wrapper sees every x. "
        "Non-trivial = some evaluated coordinate lies within 4 ulp of a bound (the clip was active) and the run made "
        ">= n+3 evaluations or >= 1 base shift. Distinct = SHA-1 of the case JSON.")
ASSUMPTIONS = ["oracle: Python <= on float64 between every recorded argument of objfun (and soln.x) and the caller's bounds",
               "1e20 entries are treated as ordinary (never binding) bounds, as documented",
               "an exception escaping solve is not judged here (C07/C08 do); the calls made before it still are"]

PROF = sc.make_prof(bounds=["box", "box", "lower", "upper", "mixed", "scaled", "scaled"], reg=0.1, zero_resid=0.05,
                    regression_bias=0.12, nolog=0.05, opts_list=[0, 0, 0, 0, 0, 1, 1, 2, 3, 4, 5, 6, 7, 8, 9, 12, 13])     # every code path that produces evaluation points gets its share of cases


def run(case):
    res = CaseResult()
    o = sc.run_solve(case)
    near = cl.c01(case, o, res)
    res.classes.append("route:" + cl.route(o))
    res.classes += ["bounds:" + ("scaled" if case["scaling"] else "lower" if case["upper"] is None else
                                 "upper" if case["lower"] is None else "box")]
    res.classes += case["tags"]
    if o.nshifts:
        res.classes.append("base-shift")
    if o.exc is not None:
        res.count("exceptions")
    res.nontrivial = bool(near and (len(o.calls) >= case["n"] + 3 or o.nshifts > 0))
    return res


PROFILES = {"solve": Profile("solve", lambda: sc.scenarios(PROF), run, quick=15000, thorough=300000, timeout=120)}
KNOWN = {}
