"""C11 - the returned Jacobian is the fit through the evaluations it names."""
import math
import numpy as np
from hypothesis import strategies as st

from .. import core
from ..core import CaseResult, Profile
from .. import scenario as sc, clauses as cl

PROP = "C11"
LEVEL = "exploration"
K = 400.0     # 100 x the largest clean-tree ratio of fit residual to eps*data magnitude seen while calibrating (DESIGN C11)
RULE = ("Hypothesis scenarios restricted to the property's domain: smooth families (LIN/SINLIN/ROSEN, optionally with "
        "sample noise), none/box/one-sided/scaled bounds, npt in n+1..2n+1 with a fully initialised initial set (coordinate or random, "
        "incl. parallel evaluation; a reduced (growing) initial set is judged once the growing phase has completed the set), regression extra steps, tiny and normal budgets, soft and hard restarts, averaging. With X, R the recorded points and residual "
        "means named by soln.jacmin_eval_nums: interpolation (npt=n+1) is checked as R_k - R_0 = J (X_k - X_0), regression as "
        "the normal equations of the centred least-squares problem, both in backward-error form in the user's coordinates; "
        "for LIN additionally J = A. Non-trivial = >=1 base shift, or scaling, or npt > n+1, or >=1 restart. Distinct = SHA-1.")
ASSUMPTIONS = ["tolerance K*eps*(1+S)*||Xc||*(sqrt(npt)*max|R| + ||Xc||*||J|| + sqrt(npt)*||J||*max|X|), K=400, S base shifts "
               "(for regression multiplied by ||Xc|| once more: normal-equation residual); a mislabelled point gives >= 1e6",
               "point numbers come from the dfols log; residual at a point = mean of its recorded samples",
               "cases where no Jacobian is returned, or the point set is not fully initialised, are outside the statement"]

PROF = sc.make_prof(fams=["lin", "lin", "sinlin", "rosen"], opts=True, opts_list=[0, 0, 0, 1, 1, 1, 2, 2, 6, 7, 9, 10, 11, 12], noise_flag=False,
                    diag=0.0, zero_resid=0.05,
                    maxfuns=["npt", "npt+1", 10, 30, 60, 150], bounds=["none", "box", "lower", "mixed", "scaled", "scaled"])


def run(case):
    res = CaseResult()
    o = sc.run_solve(case)
    judge(case, o, res)
    return res


def judge(case, o, res):
    s = o.soln
    res.classes.append("route:" + cl.route(o))
    res.classes += case["tags"]
    if o.exc is not None:
        res.count("exceptions")
    if s is None or s.flag == s.EXIT_INPUT_ERROR or s.jacobian is None or s.jacmin_eval_nums is None:
        res.count("no-jacobian")
        return
    groups = cl.point_groups(o)
    if groups is None:
        res.count("unlocatable")
        return
    names = [int(v) for v in np.asarray(s.jacmin_eval_nums).ravel()]
    n = case["n"]
    up = case["up"]
    maxnpt = up.get("restarts.max_npt", case["npt"]) if up.get("restarts.increase_npt") else case["npt"]
    if up.get("growing.ndirs_initial") is not None and (len(names) < case["npt"] or 0 in names):
        # while the set is still growing the unfilled slots are exported as evaluation number 0
        res.count("growing-phase-not-finished")      # the statement is about a fully initialised point set
        return
    if any((k < 1 or k > s.nx or k not in groups) for k in names) or not (n + 1 <= len(names) <= maxnpt) or len(set(names)) != len(names):
        res.fail("C11.names_valid", "jacmin_eval_nums=%r with nx=%r, npt in [%d,%d]" % (names, s.nx, n + 1, maxnpt))
        return
    J = np.asarray(s.jacobian, dtype=float)
    X = np.array([o.calls[groups[k][0]][0] for k in names])
    R = np.array([np.mean(np.array([o.calls[i][1] for i in groups[k]]), axis=0) for k in names])
    if J.shape != (R.shape[1], n) or not np.all(np.isfinite(J)) or not np.all(np.isfinite(R)):
        res.count("non-finite-or-shape")
        if J.shape != (R.shape[1], n):
            res.fail("C11.names_valid", "jacobian has shape %r, expected %r" % (J.shape, (R.shape[1], n)))
        return
    npt = len(names)
    S = 1 + o.nshifts
    maxR, maxX, normJ = float(np.max(np.abs(R))), float(np.max(np.abs(X))), float(np.linalg.norm(J, 2))
    if npt == n + 1:
        Xc, Rc = X[1:] - X[0], R[1:] - R[0]
        nXc = float(np.linalg.norm(Xc, 2))
        resid = float(np.linalg.norm(Rc - Xc.dot(J.T)))
        scale = sc.EPS * S * (math.sqrt(npt) * maxR + nXc * normJ + math.sqrt(npt) * normJ * maxX)
        clause = "C11.fit_interpolation"
    else:
        Xc, Rc = X - X.mean(axis=0), R - R.mean(axis=0)
        nXc = float(np.linalg.norm(Xc, 2))
        resid = float(np.linalg.norm(Xc.T.dot(Rc - Xc.dot(J.T))))
        scale = sc.EPS * S * nXc * (math.sqrt(npt) * maxR + nXc * normJ + math.sqrt(npt) * normJ * maxX)
        clause = "C11.fit_regression"
    if scale > 0:
        ratio = resid / scale
        res.margin(clause, ratio / K)
        if not (ratio <= K):
            res.fail(clause, "Jacobian is not the fit through evaluation points %r: residual/(eps*magnitude) = %.3g > %g" % (names, ratio, K))
    if case["fam"] == "lin" and not case.get("noise"):
        A = np.array(case["A"], dtype=float).reshape(case["m"], n)
        b = np.array(case["b"], dtype=float)
        sv = np.linalg.svd(Xc, compute_uv=False) if min(Xc.shape) >= n else np.array([0.0])
        smin = float(sv[-1])
        if smin > 0 and smin < 1e-8 * float(sv[0]):
            # numerically singular point set (e.g. random directions squeezed against a bound an ulp away): 'rounding amplified
            # by the conditioning' is unbounded there, the forward comparison with A says nothing (the backward-error clause
            # above is still judged). Thorough tier, seed 1: ||J - A|| = 1e32 on such a set was a false alarm.
            res.count("linear-not-judged-singular-set")
        elif smin > 0:
            tol = K * sc.EPS * S * (np.linalg.norm(A, 2) * maxX * math.sqrt(n) + np.linalg.norm(b) + 1e-300) * math.sqrt(npt) / smin
            err = float(np.linalg.norm(J - A, 2))
            res.margin("C11.linear", err / tol)
            if not (err <= tol):
                res.fail("C11.linear", "linear residuals but ||J - A|| = %r (tol %r)" % (err, tol))
    restarts = max(len(o.main_calls) - 1, 0) + len(o.soft_restarts)
    for flag, name in ((o.nshifts > 0, "base-shift"), (case["scaling"], "scaled"), (npt > n + 1, "regression"), (restarts > 0, "restarted")):
        if flag:
            res.classes.append(name)
    res.nontrivial = bool(o.nshifts or case["scaling"] or npt > n + 1 or restarts)
    return


ENUM_PROF = sc.make_prof(fams=["lin", "lin", "sinlin", "rosen"], opts=True, opts_list=[0, 1, 2, 2, 6, 10, 11], noise_flag=False, diag=0.0, zero_resid=0.0,
                         maxfuns=[16, 24, 36, 50], bounds=["none", "box", "scaled"], print_progress=0.0, route_bias=0.0, rhoend_exps=[1, 1, 2])


@st.composite
def enum_cases(draw):
    c = draw(sc.scenarios(ENUM_PROF))
    if c["n"] >= 2 and draw(st.integers(0, 2)) == 0 and not c["up"].get("growing.ndirs_initial"):
        # soft restarts that append several points: the budget can end between two of them, with a model fitted before the first
        n = c["n"]
        c["up"].update({"restarts.use_restarts": True, "restarts.increase_npt": True, "restarts.max_npt": (n + 1) * (n + 2) // 2,
                        "restarts.increase_npt_amt": draw(st.sampled_from([1, 2, 3]))})
        c["up"].pop("restarts.use_soft_restarts", None)
        c["up"].pop("init.run_in_parallel", None)
        if draw(st.booleans()):
            c["up"]["restarts.soft.move_xk"] = False
        c["tags"] = sorted(set([t for t in c["tags"] if not t.startswith("restarts:")] + ["restarts:soft", "increase_npt"]))
    return c


def run_enum(case):
    """Budget enumeration: the scenario re-run with maxfun = 1..nf; the returned Jacobian judged wherever the budget ends."""
    res = CaseResult()
    nf, ref = sc.budget_enumeration(case, judge, res)
    res.classes += case["tags"]
    res.nontrivial = bool(nf > case["npt"] + 2)
    return res


@st.composite
def cases(draw):
    c = draw(sc.scenarios(PROF))
    if c["fam"] == "lin" and not c.get("noise") and draw(st.integers(0, 19)) == 0:
        # residuals in tiny units (1e-18): every true Jacobian entry is below machine epsilon in absolute terms; the statement is
        # relative ("up to rounding amplified by the conditioning"), so nothing may depend on an absolute threshold
        sc_ = 10.0 ** -draw(st.sampled_from([17, 18, 20]))
        c["A"] = [[v * sc_ for v in row] for row in c["A"]]
        c["b"] = [v * sc_ for v in c["b"]]
        c["up"]["model.abs_tol"] = 1e-80
        c["tags"] = sorted(set(c["tags"] + ["tiny-units"]))
    return c


PROFILES = {"solve": Profile("solve", cases, run, quick=4000, thorough=100000, timeout=120),
            "budget-enum": Profile("budget-enum", enum_cases, run_enum, quick=120, thorough=4000, timeout=600)}
KNOWN = {}
