"""C06 - convex regularised least squares converges to the regularised optimum."""
import math
import numpy as np
from hypothesis import strategies as st

from .. import core
from ..core import CaseResult, Profile
from .. import scenario as sc, clauses as cl

PROP = "C06"
LEVEL = "exploration"
RULE = ("Hypothesis cases: r = A x - b with m >= n, n<=3, cond(A) <= 100 (repaired by construction, never rejected), "
        "h in {lam*||x||_1, lam*||x||_2}, lam in 1e-3..10, exact prox, lh = lam*sqrt(n) (L1) or lam (L2); unbounded / box "
        "around the regularised minimiser / box that cuts it off / box around x0, each as a full box, with a per-coordinate mix of finite and absent (+-1e20) bounds, or handed over as projections=[P_box]; calling convention in {closures, argsh+"
        "argsprox, argsh only, argsprox only}; default budget and rhoend; in a sixth of the cases x0 is the un-regularised "
        "solution (zero residual at the start), in a sixth the nsamples callback asks for 2 samples. Reference F* from FISTA with restarts run to a "
        "fixed point and certified by an explicit KKT check; uncertified references are discarded and counted. "
        "scaling_within_bounds is excluded by construction (known finding, pinned replay). Non-trivial = the reference "
        "solution has a zero component (the non-smooth part matters), or a bound is active, or an args convention is used.")
ASSUMPTIONS = ["reference minimiser computed by the harness (accelerated proximal gradient, exact prox of h + box indicator "
               "for L1; KKT residual <= 1e-7*(1+|grad|) required, else the case is not judged)",
               "tolerance 1e-3*(1+F*) as stated, applied on both sides and also to the objective recomputed at soln.x",
               "the harness's h/prox proxies record the extra arguments of every call"]


def repair_cond(A, limit=100.0):
    A = np.array(A, dtype=float)
    m, n = A.shape
    k = 0
    while np.linalg.cond(A) > limit and k < 40:
        for i in range(n):
            A[i, i] += (1.0 if A[i, i] >= 0 else -1.0) * 2.0 ** (k // 4)
        k += 1
    return A


@st.composite
def cases(draw):
    n = draw(st.integers(1, 3))
    m = draw(st.integers(n, n + 2))
    A = repair_cond([[draw(sc.g8) for _ in range(n)] for _ in range(m)]) * 10.0 ** draw(st.integers(-1, 0))
    b = [draw(sc.g8) for _ in range(m)]
    kind = draw(st.sampled_from(["l1", "l1", "l2"]))
    lam = 10.0 ** draw(st.integers(-3, 1))
    conv = draw(st.sampled_from(["closure", "args", "args", "argsh", "argsprox"]))
    x0 = [draw(sc.g8) * draw(st.sampled_from([0.1, 1.0, 10.0])) for _ in range(n)]
    case = {"n": n, "m": m, "fam": "lin", "A": A.tolist(), "b": b, "x0": x0, "lower": None, "upper": None, "scaling": False,
            "npt": draw(st.sampled_from([n + 1, n + 1, min(2 * n + 1, (n + 1) * (n + 2) // 2)])), "rhobeg": None, "rhoend": None,
            "maxfun": None, "up": {}, "np_seed": 0, "reg": {"kind": kind, "lam": lam, "conv": conv}, "tags": []}
    if m >= n and draw(st.integers(0, 5)) == 0:
        # warm start from the un-regularised solution: zero residual at x0, so F(x0) = h(x0) > F*
        case["b"] = A.dot(np.array(x0, dtype=float)).tolist()
        case["tags"] = ["start:zero-residual"]
    if draw(st.integers(0, 5)) == 0:
        case["nsamples"] = {"const": 2}       # averaging (of identical samples: the objective is deterministic); default budget
        case["tags"] = case["tags"] + ["averaging"]
    box = draw(st.sampled_from(["none", "none", "around", "cut", "x0"]))
    if box != "none":
        xs, _, _ = reference(case)
        w = [0.5 + abs(draw(sc.g8)) for _ in range(n)]
        if box == "around":
            lo = [xs[i] - w[i] for i in range(n)]
            up = [xs[i] + w[i] for i in range(n)]
        elif box == "cut":
            lo = [xs[i] + 0.25 * w[i] if i % 2 == 0 else xs[i] - w[i] for i in range(n)]
            up = [lo[i] + 2 * w[i] for i in range(n)]
        else:
            lo = [x0[i] - w[i] for i in range(n)]
            up = [x0[i] + w[i] for i in range(n)]
        case["lower"] = [sc.dec(v) for v in lo]
        case["upper"] = [sc.dec(v) for v in up]
        mode = draw(st.sampled_from(["box", "box", "box", "mixed", "mixed", "as-projection"]))
        if mode == "mixed" and n >= 2:
            # per-coordinate mix of finite and absent (+-1e20) bounds
            for i in range(n):
                side = draw(st.sampled_from(["both", "both", "l", "u", "none"]))
                if side in ("u", "none"):
                    case["lower"][i] = -1e20
                if side in ("l", "none"):
                    case["upper"][i] = 1e20
            case["tags"] = case["tags"] + ["bounds:mixed"]
        elif mode == "as-projection":
            case["box_as_proj"] = True        # the same box handed over as a user projection (projections=[P_box]) instead of bounds=
            case["npt"] = n + 1
            case["tags"] = case["tags"] + ["bounds:as-projection"]
        gap = min(case["upper"][i] - case["lower"][i] for i in range(n))
        rb_default = 0.1 * max(max(abs(v) for v in x0), 1.0)
        if gap < 2 * rb_default:
            case["rhobeg"] = gap / 2.0
    case["tags"] = case["tags"] + ["box:" + box, "conv:" + conv, kind]
    if draw(st.integers(0, 7)) == 0:
        # the same problem posed in small absolute units (x = s*y: A/s, lam/s, s*x0, s*bounds, radii scaled): F* is unchanged, and
        # nothing in a correct solver depends on the absolute size of the unknowns
        s_ = draw(st.sampled_from([1e-6, 1e-4, 1e3]))
        rb = 0.1 * max(max(abs(v) for v in case["x0"]), 1.0) if case["rhobeg"] is None else case["rhobeg"]
        case["A"] = (np.array(case["A"], dtype=float) / s_).tolist()
        case["x0"] = [v * s_ for v in case["x0"]]
        case["reg"] = dict(case["reg"], lam=case["reg"]["lam"] / s_)
        if case["lower"] is not None:
            case["lower"] = [v * s_ if abs(v) < 1e19 else v for v in case["lower"]]
            case["upper"] = [v * s_ if abs(v) < 1e19 else v for v in case["upper"]]
        case["rhobeg"] = rb * s_
        if case["lower"] is not None:
            gaps = [u - l for l, u in zip(case["lower"], case["upper"]) if abs(l) < 1e19 and abs(u) < 1e19]
            if gaps and min(gaps) < 2 * case["rhobeg"]:
                case["rhobeg"] = min(gaps) / 2.0       # rounding of the rescaled bounds: keep the documented precondition gap >= 2*rhobeg
        case["rhoend"] = min(1e-8 * s_, case["rhobeg"] * 1e-3)
        case["tags"] = case["tags"] + ["units:%g" % s_]
    return case


def prox_hbox(kind, lam, v, t, lo, up):
    """prox of t*h + indicator of the box at v."""
    if kind == "l1":
        return np.minimum(np.maximum(np.sign(v) * np.maximum(np.abs(v) - lam * t, 0.0), lo), up)
    # L2 norm + box: Dykstra-like proximal splitting between prox_h and the box projection
    x = v.copy()
    p = np.zeros_like(v)
    q = np.zeros_like(v)
    for _ in range(500):
        w = x + p
        nw = np.linalg.norm(w)
        y = w * max(1.0 - lam * t / nw, 0.0) if nw > 0 else w
        p = w - y
        xn = np.minimum(np.maximum(y + q, lo), up)
        q = y + q - xn
        if np.linalg.norm(xn - x) <= 1e-15 * (1 + np.linalg.norm(xn)):
            x = xn
            break
        x = xn
    return x


def reference(case):
    """(x*, F*, certified) for min ||Ax-b||^2 + h(x) over the box."""
    n = case["n"]
    A = np.array(case["A"], dtype=float)
    b = np.array(case["b"], dtype=float)
    kind, lam = case["reg"]["kind"], float(case["reg"]["lam"])
    lo = np.array(case["lower"], dtype=float) if case.get("lower") is not None else np.full(n, -np.inf)
    up = np.array(case["upper"], dtype=float) if case.get("upper") is not None else np.full(n, np.inf)
    L = 2.0 * np.linalg.norm(A, 2) ** 2
    t = 1.0 / L
    x = np.minimum(np.maximum(np.zeros(n), lo), up)
    y = x.copy()
    tk = 1.0
    F = lambda v: float(np.sum((A.dot(v) - b) ** 2)) + lam * (np.sum(np.abs(v)) if kind == "l1" else np.linalg.norm(v))
    for it in range(40000):
        g = 2.0 * A.T.dot(A.dot(y) - b)
        xn = prox_hbox(kind, lam, y - t * g, t, lo, up)
        tn = 0.5 * (1 + math.sqrt(1 + 4 * tk * tk))
        if (y - xn).dot(xn - x) > 0:      # gradient restart
            tn = 1.0
            yn = xn.copy()
        else:
            yn = xn + (tk - 1) / tn * (xn - x)
        done = np.linalg.norm(xn - x) <= 1e-16 * (1 + np.linalg.norm(xn)) and it > 5
        x, y, tk = xn, yn, tn
        if done:
            break
    # KKT certificate: 0 in grad + dh(x) + N_box(x)
    g = 2.0 * A.T.dot(A.dot(x) - b)
    viol = 0.0
    at_lo = x <= lo
    at_up = x >= up
    if kind == "l1":
        for i in range(n):
            if x[i] > 0:
                cands = [g[i] + lam]
            elif x[i] < 0:
                cands = [g[i] - lam]
            else:
                cands = None          # subgradient interval [g-lam, g+lam]
            lo_s, hi_s = (g[i] - lam, g[i] + lam) if cands is None else (cands[0], cands[0])
            # need some s in [lo_s, hi_s] with -s in N_box: s >= 0 allowed if at lower, s <= 0 allowed if at upper, s = 0 interior
            ok_lo = 0.0 if (at_lo[i] and hi_s >= 0) else None
            if lo_s <= 0 <= hi_s:
                v = 0.0
            elif at_lo[i] and lo_s > 0:
                v = 0.0
            elif at_up[i] and hi_s < 0:
                v = 0.0
            else:
                v = min(abs(lo_s), abs(hi_s))
            viol = max(viol, v)
        certified = viol <= 1e-7 * (1 + np.linalg.norm(g))
    else:
        nx = np.linalg.norm(x)
        if nx > 0:
            s = g + lam * x / nx
            for i in range(n):
                if at_lo[i] and s[i] > 0:
                    continue
                if at_up[i] and s[i] < 0:
                    continue
                viol = max(viol, abs(s[i]))
            certified = viol <= 1e-7 * (1 + np.linalg.norm(g))
        else:
            certified = bool(np.all(~at_lo & ~at_up) and np.linalg.norm(g) <= lam * (1 + 1e-9))
    return x, F(x), bool(certified)


def run(case):
    res = CaseResult()
    res.classes += case["tags"]
    xs, Fs, certified = reference(case)
    if not certified:
        res.count("reference-not-certified")
        return res
    solve_case = case
    if case.get("box_as_proj"):
        solve_case = dict(case)
        solve_case["proj"] = [{"kind": "box", "l": case["lower"], "u": case["upper"]}]
        solve_case["lower"] = solve_case["upper"] = None
    o = sc.run_solve(solve_case)
    lam = float(case["reg"]["lam"])
    conv = case["reg"]["conv"]
    want_h = (lam,) if conv in ("args", "argsh") else ()
    want_p = (lam,) if conv in ("args", "argsprox") else ()
    if o.exc is not None:
        res.fail("C06.args_passthrough" if isinstance(o.exc, TypeError) else "C06.success",
                 "solve raised %s: %s" % (type(o.exc).__name__, str(o.exc)[:160]))
        res.nontrivial = True
        return res
    if o.livelock or o.soln is None:
        res.fail("C06.success", "solve did not return")
        return res
    s = o.soln
    bad_h = [a for a in o.hcalls if a != want_h]
    bad_p = [a for a in o.proxcalls if a != want_p]
    if bad_h:
        res.fail("C06.args_passthrough", "h received extra arguments %r, expected %r (%d of %d calls)" % (bad_h[0], want_h, len(bad_h), len(o.hcalls)))
    if bad_p:
        res.fail("C06.args_passthrough", "prox received extra arguments %r, expected %r (%d of %d calls)" % (bad_p[0], want_p, len(bad_p), len(o.proxcalls)))
    if not o.proxcalls:
        res.count("prox-never-called")
    res.classes.append("route:" + cl.route(o))
    if s.flag == s.EXIT_INPUT_ERROR:
        res.fail("C06.success", "input error: %s" % s.msg)
        return res
    tol = 1e-3 * (1 + Fs)
    obj = float(s.obj)
    res.margin("C06.optimal", abs(obj - Fs) / tol)
    if not (abs(obj - Fs) <= tol):
        res.fail("C06.optimal", "soln.obj=%r, F*=%r (tol %r)" % (obj, Fs, tol))
    rec = sc.objective_of(case, s.x, sc.smooth_resid(case, np.asarray(s.x, dtype=float)))
    res.margin("C06.optimal_recomputed", abs(rec - Fs) / tol)
    if not (abs(rec - Fs) <= tol):
        res.fail("C06.optimal", "objective recomputed at soln.x=%r, F*=%r (tol %r)" % (rec, Fs, tol))
    if s.flag != s.EXIT_SUCCESS:
        if case.get("nsamples"):
            # averaging is the harness's own addition to the property's domain (it halves the default budget in points): the
            # optimality and argument clauses are judged, 'reports success' is not (thorough tier: one budget exit at the optimum)
            res.count("success-not-judged-with-averaging")
        else:
            res.fail("C06.success", "flag %r: %s" % (s.flag, s.msg))
    lo, up = sc.user_bounds(case)
    zero = bool(np.any(xs == 0.0))
    active = bool(np.any(xs <= lo) or np.any(xs >= up))
    if zero:
        res.classes.append("zero-component")
    if active:
        res.classes.append("bound-active")
    res.nontrivial = bool(zero or active or conv != "closure")
    return res


def known_scaling(case, clause, detail):
    return bool(case.get("scaling")) and bool(case.get("reg"))


def known_slow(case, clause, detail):
    return detail.startswith("flag 2:") and "slow progress" in detail


PROFILES = {"solve": Profile("solve", cases, run, quick=256, thorough=5000, timeout=600)}
KNOWN = {"regulariser-scaling": known_scaling, "slow-progress-at-optimum": known_slow}
