"""C04 - the best point ever evaluated is never lost."""
import math
import numpy as np
from hypothesis import strategies as st
from ..core import CaseResult, Profile
from .. import scenario as sc, clauses as cl

PROP = "C04"
LEVEL = "exploration"
RULE = ("Hypothesis scenarios restricted to deterministic objectives (LIN/SINLIN/ROSEN/HASHED/BOXDOMAIN, no noise) "
        "and nsamples == 1, with all bound kinds, soft/hard restarts, regulariser, tiny budgets, projection-constrained scenarios (8%), and objectives that are "
        "undefined (NaN) beyond a hyperplane 0.5-10 rhobeg from x0 (a sixth; two thirds of those with soft restarts that append random points; finite values are judged). "
        "Profile budget-enum: each generated scenario (nf <= 40, 20% with projections) is re-run with maxfun = 1..nf - exhaustive inside the scenario. The harness recomputes "
        "sum(r^2)+h(x) for every recorded call. Every-iteration form: once per main-loop iteration the best value the model "
        "holds (incumbent or saved point) must not exceed the minimum over the calls made so far. Non-trivial = the best recorded evaluation is not the last one of the "
        "run's accepted sequence (a saved/discarded point mattered: best index < last index), or the run ended on a "
        "route other than the two plain successes, or restarted. Distinct = SHA-1 of the case JSON.")
ASSUMPTIONS = ["comparison allows 4 eps relative (the solver sums squares with np.dot, the harness too)",
               "runs with a non-finite recorded objective are left to C08"]

PROF = sc.make_prof(fams=["lin", "sinlin", "rosen", "hashed", "hashed", "boxdomain"], avg=False, noise=False, reg=0.15,
                    diag=0.1, opts_list=[0, 0, 0, 0, 0, 1, 2, 2, 2, 3, 4, 5, 6, 7, 9, 12, 13], regression_bias=0.08, proj=0.14, nolog=0.05)


@st.composite
def cases(draw):
    c = draw(sc.scenarios(PROF))
    if draw(st.integers(0, 15)) == 0 and c["fam"] in ("lin", "sinlin") and c["n"] >= 2 and not c.get("proj"):
        # convergence onto an intersection of sets: 2-3 sets around the start, the unconstrained minimiser far outside them, a
        # budget that lets the run settle on the boundary (rounding-level model values, many rejected trial points)
        n = c["n"]
        draw(sc.attach_projections(c, maxfun=60))
        while len(c["proj"]) < 2:
            c["proj"] = c["proj"] + draw(sc.draw_sets(n, [float(v) for v in c["x0"]] if "proj-x0:z" in c["tags"] else
                                                      [float(np.mean([sp.get("c", c["x0"])[i] if sp["kind"] == "ball" else c["x0"][i] for sp in c["proj"]])) for i in range(n)],
                                                      1.0, kinds=("half", "ball"), nmin=1, nmax=1))
        d = np.array([draw(sc.g8) for _ in range(n)])
        if not np.any(d):
            d[0] = 1.0
        xs = np.array(c["x0"], dtype=float) + 8.0 * max(1.0, float(np.max(np.abs(c["x0"])))) * d / np.linalg.norm(d)
        A = np.array(c["A"], dtype=float).reshape(c["m"], n)
        c["b"] = A.dot(xs).tolist()
        c["maxfun"] = 60
        c["rhoend"] = c["rhobeg"] * 1e-6
        c["up"] = {k: v for k, v in c["up"].items() if k.startswith("logging.")}
        c["tags"] = sorted(set(c["tags"] + ["proj-converge"]))
        return c
    if draw(st.integers(0, 5)) == 0 and c["fam"] != "boxdomain" and not c.get("proj"):
        # the objective is undefined (NaN) beyond a hyperplane 0.5 .. 10 rhobeg away from the (projected) starting point
        n = c["n"]
        lo, up = sc.user_bounds(c)
        x0 = np.minimum(np.maximum(np.array(c["x0"], dtype=float), lo), up)
        a = np.array([draw(sc.g8) for _ in range(n)])
        if not np.any(a):
            a[0] = 1.0
        rb = c["rhobeg"] if c["rhobeg"] is not None else (0.1 if c["scaling"] else 0.1 * max(float(np.max(np.abs(x0))), 1.0))
        if c["scaling"]:
            rb = rb * float(np.min(up - lo))
        c["nan_half"] = {"a": a.tolist(), "beta": float(a.dot(x0) + draw(st.sampled_from([0.5, 2.0, 10.0])) * rb * np.linalg.norm(a))}
        c["tags"] = sorted(set(c["tags"] + ["nan-region"]))
        if draw(st.integers(0, 2)) > 0 and n >= 2 and not c.get("reg") and not c["up"].get("growing.ndirs_initial"):
            # soft restarts that append randomly directed points: some of them land in the undefined region
            c["up"]["restarts.use_restarts"] = True
            c["up"].pop("restarts.use_soft_restarts", None)
            c["up"]["restarts.increase_npt"] = True
            c["up"]["restarts.max_npt"] = (n + 1) * (n + 2) // 2
            c["up"].pop("init.run_in_parallel", None)
            c["rhoend"] = rb_eff(c) * 10.0 ** -draw(st.sampled_from([1, 1, 2]))
            c["maxfun"] = draw(st.sampled_from([40, 80, 150]))
            c["tags"] = sorted(set([t for t in c["tags"] if not t.startswith("restarts:")] + ["restarts:soft", "increase_npt", "nan-region-restarts"]))
    return c


def rb_eff(c):
    return c["rhobeg"] if c["rhobeg"] is not None else (0.1 if c["scaling"] else 0.1 * max(max(abs(v) for v in c["x0"]), 1.0))


ENUM_PROF = sc.make_prof(fams=["lin", "sinlin", "rosen", "hashed", "hashed", "hinge"], avg=False, noise=False, reg=0.05, diag=0.0, proj=0.2,
                         maxfuns=[12, 20, 30, 40], opts_list=[0, 0, 1, 2, 2, 3, 4, 5, 7, 12], regression_bias=0.08, print_progress=0.0,
                         route_bias=0.0, rhoend_exps=[1, 1, 2, 3])


@st.composite
def enum_cases(draw):
    """Budget enumeration: a scenario whose fault-free run makes nf evaluations is re-run with maxfun = 1, 2, ..., nf - every
    place at which the budget can run out (inside the initial set, a geometry step, the evaluation of a trial point that is about
    to be rejected, a soft or hard restart) is visited, exhaustively inside the scenario."""
    c = draw(sc.scenarios(ENUM_PROF))
    if not c.get("proj") and c["n"] >= 2 and draw(st.integers(0, 3)) == 0:
        # several user sets + soft restarts (+ optionally a loose projection routine): the route on which a trust-region step that
        # increases the model only warns, evaluates the trial point and then restarts or stops
        draw(sc.attach_projections(c))
        if len(c["proj"]) < 2:
            c["proj"] = c["proj"] + draw(sc.draw_sets(c["n"], [float(v) for v in np.array(c["x0"])], 1.0, nmin=1, nmax=1)) if c["tags"].count("proj-x0:z") else c["proj"]
        c["up"]["restarts.use_restarts"] = True
        c["up"].pop("restarts.use_soft_restarts", None)
        if draw(st.booleans()):
            c["up"]["dykstra.max_iters"] = draw(st.sampled_from([1, 2, 5]))
        c["maxfun"] = draw(st.sampled_from([14, 20]))
        c["tags"] = sorted(set(c["tags"] + ["proj-soft-restarts"]))
    if c.get("proj"):
        c["maxfun"] = min(c["maxfun"], 14)      # projection runs cost 0.1-1 s each (PGD over Dykstra)
    c["enum_budgets"] = True
    return c


def run_enum(case):
    res = CaseResult()
    base = {k: v for k, v in case.items() if k != "enum_budgets"}
    ref = sc.run_solve(base)
    res.classes += case["tags"]
    if ref.soln is None or not ref.calls:
        res.count("reference-run-unusable")
        return res
    nf = len(ref.calls)
    lost = 0
    for k in range(1, nf + 1):
        c2 = dict(base)
        c2["maxfun"] = k
        o = sc.run_solve(c2, iter_hook=cl.iteration_hook(c2, check_c03=False, check_c04=True))
        sub = CaseResult()
        for clause, detail in o.iter_fail:
            sub.fail(clause, detail)
        vals = cl.c04(c2, o, sub)
        for clause, detail in sub.failures:
            res.fail(clause, "[maxfun=%d of %d] %s" % (k, nf, detail))
        if vals is not None and vals.index(min(vals)) < len(vals) - 1:
            lost += 1
        res.count("budget-runs")
        if res.failures:
            break
    restarts = max(len(ref.main_calls) - 1, 0) + len(ref.soft_restarts)
    if restarts:
        res.classes.append("restarted")
    res.nontrivial = bool(nf > base["npt"] + 2)
    return res



def run(case):
    res = CaseResult()
    o = sc.run_solve(case, iter_hook=cl.iteration_hook(case, check_c03=False, check_c04=True))
    for clause, detail in o.iter_fail:
        res.fail(clause, detail)
    vals = cl.c04(case, o, res)
    r = cl.route(o)
    res.classes.append("route:" + r)
    res.classes += case["tags"]
    if o.exc is not None:
        res.count("exceptions")
    restarts = max(len(o.main_calls) - 1, 0) + len(o.soft_restarts)
    if restarts:
        res.classes.append("restarted")
    if vals is None:
        res.count("not-judged-nonfinite")
    else:
        best_i = vals.index(min(vals))
        if best_i < len(vals) - 1:
            res.classes.append("best-not-last")
        res.nontrivial = bool(best_i < len(vals) - 1 or r not in ("success-small", "success-rhoend") or restarts)
    return res


PROFILES = {"solve": Profile("solve", cases, run, quick=5000, thorough=120000, timeout=120),
            "budget-enum": Profile("budget-enum", enum_cases, run_enum, quick=160, thorough=6000, timeout=600)}
KNOWN = {}
