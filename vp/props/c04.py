"""C04 - the best point ever evaluated is never lost."""
import math
from ..core import CaseResult, Profile
from .. import scenario as sc, clauses as cl

PROP = "C04"
LEVEL = "exploration"
RULE = ("Hypothesis scenarios restricted to deterministic objectives (LIN/SINLIN/ROSEN/HASHED/BOXDOMAIN, no noise) "
        "and nsamples == 1, with all bound kinds, soft/hard restarts, regulariser, tiny budgets. The harness recomputes "
        "sum(r^2)+h(x) for every recorded call. Every-iteration form: once per main-loop iteration the best value the model "
        "holds (incumbent or saved point) must not exceed the minimum over the calls made so far. Non-trivial = the best recorded evaluation is not the last one of the "
        "run's accepted sequence (a saved/discarded point mattered: best index < last index), or the run ended on a "
        "route other than the two plain successes, or restarted. Distinct = SHA-1 of the case JSON.")
ASSUMPTIONS = ["comparison allows 4 eps relative (the solver sums squares with np.dot, the harness too)",
               "runs with a non-finite recorded objective are left to C08"]

PROF = sc.make_prof(fams=["lin", "sinlin", "rosen", "hashed", "hashed", "boxdomain"], avg=False, noise=False, reg=0.15,
                    diag=0.1, opts_list=[0, 0, 0, 0, 0, 1, 2, 2, 2, 3, 4, 5, 6, 7, 9, 12, 13], regression_bias=0.08)


def run(case):
    res = CaseResult()
    o = sc.run_solve(case, iter_hook=cl.iteration_hook(case, check_c03=False, check_c04=True))
    for clause, detail in o.iter_fail:
        res.fail(clause, detail)
    vals = cl.c04(case, o, res)
    r = cl.route(o)
    res.classes.append("route:" + r)
    res.classes += case["tags"]
    if o.exc is not None:
        res.count("exceptions")
    restarts = max(len(o.main_calls) - 1, 0) + len(o.soft_restarts)
    if restarts:
        res.classes.append("restarted")
    if vals is None:
        res.count("not-judged-nonfinite")
    else:
        best_i = vals.index(min(vals))
        if best_i < len(vals) - 1:
            res.classes.append("best-not-last")
        res.nontrivial = bool(best_i < len(vals) - 1 or r not in ("success-small", "success-rhoend") or restarts)
    return res


PROFILES = {"solve": Profile("solve", lambda: sc.scenarios(PROF), run, quick=5000, thorough=120000, timeout=120)}
KNOWN = {}
