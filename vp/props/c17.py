"""C17 - model bookkeeping stays consistent under any sequence of updates (model-based / stateful check).

The history is generated as a list of operations (so the whole sequence shrinks as one value and the replay is
plain JSON); each operation is applied to a real dfols Model and to a ~60-line shadow model kept by the harness,
and the two are compared after every step."""
import math
import numpy as np
from hypothesis import strategies as st

from .. import core
from ..core import CaseResult, Profile

core.import_dfols()
from dfols.model import Model  # noqa: E402

PROP = "C17"
LEVEL = "exploration"
EPS = float(np.finfo(float).eps)
RULE = ("Values: small dyadic numbers plus +-1e3/+-1e6 (samples that cancel) and NaN/+-inf; regulariser weights 0.5, 2, 0.3, 0.7. Stateful generation: operation sequences (<= 50 steps) over a real Model (n<=3, m<=3, npt n+1..2n+1, growing from "
        "one point), rules change_point (allow_kopt_update=True, as every solver call site), add_new_sample, add_new_point, "
        "swap_points, shift_base, save_point (with fresh arrays, and with views of the incumbent's own data as the solver's soft restart "
        "does), get_final_results; slot indices are drawn as integers and reduced modulo the "
        "current number of points; residual data are small integers (many ties) with NaN and +-inf mixed in; with and without "
        "an L1 regulariser; only in-bounds points are fed. Oracle: shadow model (per slot: absolute x, list of samples, "
        "evaluation number; saved record) compared after every step. Non-trivial = the sequence contains a swap of slots with "
        "different sample counts, or a NaN save followed/preceded by a finite incumbent, or >= 1 base shift, and has >= 5 steps. "
        "Distinct = SHA-1 of the sequence JSON.")
ASSUMPTIONS = ["means: running mean vs arithmetic mean agree to 8*eps*k*max|r|; objective values to 16*eps*k relative; ties "
               "within that rounding never decide a verdict",
               "the incumbent clause is asserted only while the incumbent has not been overwritten by a worse (or NaN) value "
               "since the last operation that re-selects it globally (add_new_sample); exempt states are counted",
               "Model is driven through its public methods exactly as controller.py does (steps relative to xbase, "
               "evaluation numbers supplied by the caller)"]

vals = st.sampled_from([-3.0, -2.0, -1.0, 0.0, 0.0, 1.0, 1.0, 2.0, 3.0, 0.5, 1e-3, 1e3, -3.0, -2.0, -1.0, 0.0, 1.0, 2.0, 3.0, 0.5, -1e3, 1e6, -1e6])      # large values of both signs: samples that cancel
special = st.sampled_from([float("nan"), float("nan"), float("inf"), float("-inf")])


@st.composite
def rvec(draw, m):
    r = [draw(vals) for _ in range(m)]
    if draw(st.integers(0, 11)) == 0:
        r[draw(st.integers(0, m - 1))] = draw(special)
    return r


@st.composite
def cases(draw):
    n = draw(st.integers(1, 3))
    m = draw(st.integers(1, 3))
    npt = draw(st.integers(n + 1, 2 * n + 1))
    lam = draw(st.sampled_from([None, None, None, 0.5, 2.0, 0.3, 0.7]))      # non-dyadic weights: h is not exactly representable next to large sums
    x0 = [draw(st.integers(-20, 20)) / 4.0 for _ in range(n)]
    ops = []
    nops = draw(st.integers(1, 50))
    for _ in range(nops):
        kind = draw(st.sampled_from(["change", "change", "change", "grow", "grow", "sample", "sample", "swap", "shift",
                                     "save", "save_inc", "final", "addpoint"]))
        op = {"op": kind}
        if kind in ("change", "grow", "addpoint"):
            op["x"] = [draw(st.integers(-40, 40)) / 8.0 for _ in range(n)]
            op["r"] = draw(rvec(m))
            op["k"] = draw(st.integers(0, 8))
        elif kind == "sample":
            op["k"] = draw(st.integers(0, 8))
            op["r"] = draw(rvec(m))
        elif kind == "swap":
            op["k"] = draw(st.integers(0, 8))
            op["k2"] = draw(st.integers(0, 8))
        elif kind == "shift":
            op["v"] = [draw(st.integers(-16, 16)) / 8.0 for _ in range(n)]
            op["to_xopt"] = draw(st.booleans())
        elif kind == "save":
            op["x"] = [draw(st.integers(-40, 40)) / 8.0 for _ in range(n)]
            op["r"] = draw(rvec(m))
            op["ns"] = draw(st.integers(1, 3))
        ops.append(op)
    return {"n": n, "m": m, "npt": npt, "lam": lam, "x0": x0, "r0": draw(rvec(m)), "ns0": draw(st.integers(1, 3)), "ops": ops}


def hval(lam, x):
    return 0.0 if lam is None else lam * float(np.sum(np.abs(x)))


def objective(lam, x, rmean):
    with np.errstate(all="ignore"):
        return float(np.dot(rmean, rmean)) + hval(lam, x)


def same(a, b, tol):
    """NaN == NaN, inf == inf of the same sign, finite values within tol."""
    a, b = float(a), float(b)
    if math.isnan(a) or math.isnan(b):
        return math.isnan(a) and math.isnan(b)
    if math.isinf(a) or math.isinf(b):
        return a == b
    return abs(a - b) <= tol


def vec_same(a, b, tol):
    a = np.asarray(a, dtype=float)
    b = np.asarray(b, dtype=float)
    return a.shape == b.shape and all(same(u, v, tol) for u, v in zip(a.ravel(), b.ravel()))


def mean_of(samples):
    with np.errstate(all="ignore"):
        return np.mean(np.array(samples, dtype=float), axis=0)


def run(case):
    with np.errstate(all="ignore"):
        return _run(case)


def _run(case):
    res = CaseResult()
    n, m, npt, lam = case["n"], case["m"], case["npt"], case["lam"]
    x0 = np.array(case["x0"], dtype=float)
    r0 = np.array(case["r0"], dtype=float)
    h = (lambda x, *a: hval(lam, x)) if lam is not None else None
    mdl = Model(npt, x0.copy(), r0.copy(), -1e20 * np.ones(n), 1e20 * np.ones(n), [], case["ns0"], h=h, do_logging=False)
    # shadow: the first point holds ns0 samples whose mean is r0 (that is what the caller hands over)
    slots = [{"x": x0.copy(), "samples": [r0.copy()] * case["ns0"], "en": 1}]
    saved = None          # dict(x, r, ns, en, obj)
    kopt_valid = True
    nshift = 0
    next_en = 2
    flags = {"swap_diff_ns": False, "nan_save_finite_inc": False, "shift": False, "exempt": 0, "steps": 0}

    def slot_obj(s):
        return objective(lam, s["x"], mean_of(s["samples"]))

    def compare(step, op):
        scale = max([1.0] + [float(np.max(np.abs(s["x"]))) for s in slots] + [float(np.max(np.abs(mdl.xbase)))])
        tolx = (4 + 4 * nshift) * EPS * scale
        if mdl.npt() != len(slots):
            res.fail("C17.npt", "step %d %s: model has %d points, shadow %d" % (step, op, mdl.npt(), len(slots)))
            return False
        for k, s in enumerate(slots):
            ns = len(s["samples"])
            rm = mean_of(s["samples"])
            fin = np.array(s["samples"], dtype=float)
            rmax = float(np.max(np.abs(fin[np.isfinite(fin)]))) if np.any(np.isfinite(fin)) else 1.0
            if not vec_same(mdl.xbase + mdl.points[k, :], s["x"], tolx):
                res.fail("C17.point", "step %d %s: slot %d holds x=%r, expected %r" % (step, op, k, (mdl.xbase + mdl.points[k]).tolist(), s["x"].tolist()))
                return False
            if int(mdl.nsamples[k]) != ns:
                res.fail("C17.nsamples", "step %d %s: slot %d has nsamples=%d, %d samples were given" % (step, op, k, mdl.nsamples[k], ns))
                return False
            if not vec_same(mdl.fval_v[k, :], rm, 8 * EPS * ns * max(rmax, 1e-300)):
                res.fail("C17.mean", "step %d %s: slot %d residual %r is not the mean %r of its %d samples" % (step, op, k, mdl.fval_v[k].tolist(), rm.tolist(), ns))
                return False
            if int(mdl.eval_num[k]) != s["en"]:
                res.fail("C17.eval_num", "step %d %s: slot %d carries evaluation number %d, expected %d" % (step, op, k, mdl.eval_num[k], s["en"]))
                return False
            want = objective(lam, s["x"], rm)
            # the stored mean is known to dlt = 8*eps*ns*rmax per component, so its square sum to m*dlt*(2*max|mean| + dlt) - NOT to
            # eps*rmax^2: when large samples cancel (mean << rmax) the stored objective is still sum(mean^2)+h to that accuracy
            dlt = 8 * EPS * ns * max(rmax, 1e-300)
            rmm = float(np.max(np.abs(rm[np.isfinite(rm)]))) if np.any(np.isfinite(rm)) else 0.0
            tol = 16 * EPS * ns * (abs(want) if math.isfinite(want) else 1.0) + m * dlt * (2 * rmm + dlt) + (lam or 0.0) * n * tolx + 1e-300
            if not same(mdl.objval[k], want, tol):
                res.fail("C17.objval", "step %d %s: slot %d objective %r, expected sum(mean^2)+h = %r" % (step, op, k, mdl.objval[k], want))
                return False
        # incumbent
        objs = [slot_obj(s) for s in slots]
        fin = [v for v in objs if math.isfinite(v)]      # +-inf objectives are as unusable as NaN: only finite values rank
        if not (0 <= mdl.kopt < len(slots)):
            res.fail("C17.kopt", "step %d %s: kopt=%r out of range" % (step, op, mdl.kopt))
            return False
        if kopt_valid and fin and math.isfinite(objs[mdl.kopt]):
            best = min(fin)
            tol = 16 * EPS * 3 * (abs(best) if math.isfinite(best) else 1.0) + 1e-300
            if not (objs[mdl.kopt] <= best + tol):
                res.fail("C17.kopt", "step %d %s: kopt=%d has objective %r but slot %d has %r" % (step, op, mdl.kopt, objs[mdl.kopt], objs.index(best), best))
                return False
        elif kopt_valid and fin and math.isnan(objs[mdl.kopt]):
            res.fail("C17.kopt", "step %d %s: kopt=%d designates a NaN objective although finite ones are stored" % (step, op, mdl.kopt))
            return False
        elif kopt_valid and fin:
            flags["exempt"] += 1          # incumbent is +-inf: not ranked
            return False
        else:
            flags["exempt"] += 1
        return True

    ok = compare(0, "init")
    for step, op in enumerate(case["ops"], 1):
        if not ok:
            break
        kind = op["op"]
        flags["steps"] += 1
        cur = len(slots)
        if kind == "grow" or (kind == "change" and cur < 2):
            if cur >= mdl.num_pts:
                kind = "change"
            else:
                k = cur
                xabs = np.array(op["x"], dtype=float)
                r = np.array(op["r"], dtype=float)
                mdl.change_point(k, xabs - mdl.xbase, r, next_en)
                slots.append({"x": xabs, "samples": [r], "en": next_en})
                next_en += 1
                ok = compare(step, "grow")
                continue
        if kind == "change":
            k = op["k"] % cur
            xabs = np.array(op["x"], dtype=float)
            r = np.array(op["r"], dtype=float)
            new_obj = objective(lam, xabs, r)
            if k == mdl.kopt:
                others = [slot_obj(s) for i, s in enumerate(slots) if i != k]
                others = [v for v in others if math.isfinite(v)]
                if not math.isfinite(new_obj) or (others and new_obj > min(others)):
                    kopt_valid = False      # the incumbent itself was overwritten by a worse point: exempt from now on
            mdl.change_point(k, xabs - mdl.xbase, r, next_en)
            slots[k] = {"x": xabs, "samples": [r], "en": next_en}
            next_en += 1
        elif kind == "sample":
            k = op["k"] % cur
            r = np.array(op["r"], dtype=float)
            mdl.add_new_sample(k, rvec_extra=r)
            slots[k]["samples"] = slots[k]["samples"] + [r]
            kopt_valid = True               # add_new_sample re-selects the incumbent over all stored points
        elif kind == "addpoint":
            if cur < mdl.num_pts:
                continue
            if cur >= 9:
                continue
            xabs = np.array(op["x"], dtype=float)
            r = np.array(op["r"], dtype=float)
            mdl.add_new_point(xabs - mdl.xbase, r, next_en)
            slots.append({"x": xabs, "samples": [r], "en": next_en})
            next_en += 1
        elif kind == "swap":
            if cur < 2:
                continue
            k1, k2 = op["k"] % cur, op["k2"] % cur
            if k1 == k2:
                continue
            if len(slots[k1]["samples"]) != len(slots[k2]["samples"]):
                flags["swap_diff_ns"] = True
            mdl.swap_points(k1, k2)
            slots[k1], slots[k2] = slots[k2], slots[k1]
        elif kind == "shift":
            v = mdl.xopt().copy() if op["to_xopt"] else np.array(op["v"], dtype=float)
            mdl.shift_base(v)
            nshift += 1
            flags["shift"] = True
        elif kind == "save":
            xabs = np.array(op["x"], dtype=float)
            r = np.array(op["r"], dtype=float)
            obj = objective(lam, xabs, r)
            mdl.save_point(xabs, r, op["ns"], next_en, x_in_abs_coords=True)
            rec = {"x": xabs, "r": r, "ns": op["ns"], "en": next_en, "obj": obj}
            next_en += 1
            inc = slot_obj(slots[mdl.kopt])
            if math.isfinite(obj) != math.isfinite(inc):
                flags["nan_save_finite_inc"] = True
            if saved is None:
                saved = [rec]
            else:
                # the saved slot keeps the better record, any finite value beating NaN; candidates within rounding
                # of each other are all acceptable (a tie never decides a verdict)
                best = saved[0]["obj"]
                if not math.isfinite(best) and math.isfinite(obj):
                    saved = [rec]
                elif not math.isfinite(best):
                    saved = [rec] + saved       # NaN/inf against NaN/inf: either record is acceptable
                elif not math.isfinite(obj):
                    pass
                else:
                    tol = 16 * EPS * 3 * (abs(best) if math.isfinite(best) else 1.0)
                    if obj < best - tol:
                        saved = [rec]
                    elif obj <= best + tol:
                        saved = [rec] + saved
        elif kind == "save_inc":
            # save the incumbent exactly as Controller.soft_restart does: the arguments are views into the model's own arrays
            inc = slots[mdl.kopt]
            obj = slot_obj(inc)
            mdl.save_point(mdl.xopt(abs_coordinates=True), mdl.ropt(), mdl.nsamples[mdl.kopt], mdl.eval_num[mdl.kopt], x_in_abs_coords=True)
            rec = {"x": inc["x"].copy(), "r": mean_of(inc["samples"]).copy(), "ns": len(inc["samples"]), "en": inc["en"], "obj": obj,
                   "rmax": max([1e-300] + [abs(v) for smp in inc["samples"] for v in smp if math.isfinite(v)])}
            if saved is None:
                saved = [rec]
            else:
                best = saved[0]["obj"]
                if not math.isfinite(best) and math.isfinite(obj):
                    saved = [rec]
                elif not math.isfinite(best):
                    saved = [rec] + saved
                elif math.isfinite(obj):
                    tol = 16 * EPS * 3 * (abs(best) if math.isfinite(best) else 1.0)
                    if obj < best - tol:
                        saved = [rec]
                    elif obj <= best + tol:
                        saved = [rec] + saved
        elif kind == "final":
            try:
                x, r, obj, jac, ns, en, jen = mdl.get_final_results()
            except Exception as e:
                res.fail("C17.final", "step %d: get_final_results raised %s: %s" % (step, type(e).__name__, e))
                break
            inc = slots[mdl.kopt]
            inc_rec = {"x": inc["x"], "r": mean_of(inc["samples"]), "ns": len(inc["samples"]), "en": inc["en"], "obj": slot_obj(inc),
                       "rmax": max([1e-300] + [abs(v) for smp in inc["samples"] for v in smp if math.isfinite(v)])}
            cands = [inc_rec] + (saved or [])
            finite = [c for c in cands if math.isfinite(c["obj"])]
            pool = finite if finite else cands
            best = min(c["obj"] for c in pool) if finite else float("nan")
            tol = 16 * EPS * 3 * (abs(best) if math.isfinite(best) else 1.0) + 1e-300
            allowed = [c for c in pool if (math.isnan(best) or c["obj"] <= best + tol)]
            scale = max([1.0] + [float(np.max(np.abs(c["x"]))) for c in allowed])
            tolx = (4 + 4 * nshift) * EPS * scale
            hit = False
            for c in allowed:
                rmax = c.get("rmax") or (float(np.max(np.abs(c["r"][np.isfinite(c["r"])]))) if np.any(np.isfinite(c["r"])) else 1.0)
                if same(obj, c["obj"], 16 * EPS * c["ns"] * ((abs(c["obj"]) if math.isfinite(c["obj"]) else 1.0) + m * rmax * rmax) + (lam or 0.0) * n * tolx + 1e-300) \
                        and vec_same(x, c["x"], tolx) and vec_same(r, c["r"], 8 * EPS * c["ns"] * max(rmax, 1e-300)) \
                        and int(ns) == c["ns"] and int(en) == c["en"]:
                    hit = True
                    break
            if not hit:
                res.fail("C17.final", "step %d: get_final_results returned obj=%r eval=%r nsamples=%r; acceptable: %s"
                         % (step, obj, en, ns, [(c["obj"], c["en"], c["ns"]) for c in allowed]))
                break
            continue
        ok = compare(step, kind)
    res.classes.append("regulariser" if lam is not None else "plain")
    for k in ("swap_diff_ns", "nan_save_finite_inc", "shift"):
        if flags[k]:
            res.classes.append(k)
    res.count("steps", flags["steps"])
    res.count("exempt-states", flags["exempt"])
    res.nontrivial = bool((flags["swap_diff_ns"] or flags["nan_save_finite_inc"] or flags["shift"]) and flags["steps"] >= 5)
    res.sample = {"n": n, "m": m, "npt": npt, "lam": lam, "ops": [o["op"] for o in case["ops"]]}
    return res


PROFILES = {"history": Profile("history", cases, run, quick=12000, thorough=300000, timeout=60)}
KNOWN = {}
