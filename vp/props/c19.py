"""C19 - results are reproducible and caller data are never modified."""
import os, json, copy
import numpy as np
from hypothesis import strategies as st

from .. import core
from ..core import CaseResult, Profile
from .. import scenario as sc, clauses as cl

PROP = "C19"
LEVEL = "exploration"
RULE = ("Metamorphic check. 1 case in 80 has n = 33/36/40 (regulariser, projections or box; short budget) for size-dependent code paths. Otherwise: Hypothesis scenarios in default / bounded / scaled / convex-constrained / regression / "
        "regularised configurations, with x0 placements that force the clipping/projection code to run, passed as float, "
        "integer-valued or read-only arrays (flags.writeable=False) and a user_params dict. Each case is run twice in one "
        "process with different np.random.seed values (and an unrelated solve in between); unless an option documented as "
        "random is on (random initial directions, reduced initial set/growing, momentum extra steps, npt growth on "
        "restart) the two evaluation traces and results must be bit-identical. The inputs-untouched clause "
        "is checked on every case. Non-trivial = x0 needed projection/clipping, or bounds were given. Distinct = SHA-1.")
ASSUMPTIONS = ["options documented as using random directions are excluded from the same-trace clause only",
               "read-only input arrays turn any in-place write into an exception, which is reported as a violation",
               "comparison of results covers x, resid, obj, jacobian, nf, nx, nruns, flag, msg, evaluation numbers and the diagnostic "
               "table cell by cell"]

PROF = sc.make_prof(fams=["lin", "sinlin", "rosen", "hashed", "boxdomain"], noise=False, diag=0.2, reg=0.08, zero_resid=0.05, nolog=0.05,
                    maxfuns=["npt", "npt+1", 10, 30, 60])
# options documented as drawing random directions; plain soft/hard restarts (geometry steps, re-initialisation with coordinate
# directions) are deterministic and are compared
RANDOM_KEYS = ("init.random_initial_directions", "growing.ndirs_initial", "regression.momentum_extra_steps",
               "restarts.increase_npt", "growing.perturb_trust_region_step", "growing.num_new_dirns_each_iter")


@st.composite
def large_case(draw):
    """Dimension classes beyond the shared generator (n = 33..40): size-dependent code paths (iterative / randomised linear-algebra
    kernels chosen above a size threshold) exist only there. Short runs: the initial set plus a few iterations."""
    n = draw(st.sampled_from([33, 36, 40]))
    m = n + draw(st.integers(0, 2))
    A = [[(1.0 + 0.1 * i if i == j else 0.0) + draw(st.sampled_from([0.0, 0.0, 0.0, 0.25, -0.5])) for j in range(n)] for i in range(m)]
    c = {"n": n, "m": m, "fam": "lin", "A": A, "b": [draw(sc.g8) for _ in range(m)], "x0": [draw(sc.g8) for _ in range(n)], "lower": None,
         "upper": None, "scaling": False, "npt": n + 1, "rhobeg": 0.5, "rhoend": 1e-3, "maxfun": n + 1 + draw(st.sampled_from([2, 4])),
         "up": {}, "np_seed": 0, "tags": ["large-n"]}
    kind = draw(st.sampled_from(["reg", "proj", "box", "plain"]))
    if kind == "reg":
        c["reg"] = {"kind": draw(st.sampled_from(["l1", "l2"])), "lam": 0.1, "conv": "closure"}
        c["up"]["func_tol.max_iters"] = 25
    elif kind == "proj":
        z = np.array(c["x0"])
        c["proj"] = [{"kind": "ball", "c": (z + 0.5).tolist(), "r": float(0.5 * np.sqrt(n) + 2.0)},
                     {"kind": "half", "a": [1.0] * n, "beta": float(z.sum() + 3.0)}][:draw(st.integers(1, 2))]
    elif kind == "box":
        c["lower"] = [v - 1.5 for v in c["x0"]]
        c["upper"] = [v + 2.5 for v in c["x0"]]
    c["tags"].append("large-n:" + kind)
    return c


@st.composite
def cases(draw):
    if draw(st.integers(0, 79)) == 0:
        c = draw(large_case())
        c["x0_kind"] = "float"
        c["seeds"] = [draw(st.integers(0, 2 ** 16)), draw(st.integers(0, 2 ** 16))]
        return c
    c = draw(sc.scenarios(PROF))
    if draw(st.integers(0, 5)) == 0 and not c["scaling"] and not c.get("reg"):
        n = c["n"]
        mag = max(1.0, max(abs(v) for v in c["x0"]))
        z = [sc.dec(v) for v in c["x0"]]
        c["proj"] = draw(sc.draw_sets(n, z, 0.5 * mag, nmin=1, nmax=2))
        c["npt"] = n + 1
        c["lower"] = c["upper"] = None
        c["rhobeg"] = 0.1 * mag
        c["rhoend"] = c["rhobeg"] * 1e-3
        c["maxfun"] = min(c["maxfun"] or 20, 20)
        for k in [k for k in c["up"] if k.split(".")[0] in ("growing", "regression", "init", "restarts")]:
            c["up"].pop(k)
        c["x0"] = [v + draw(st.sampled_from([0.0, 2.0 * mag])) for v in z]
        c["tags"] = sorted(set([t for t in c["tags"] if not t.startswith(("x0:", "growing", "random", "restarts", "regression", "increase"))] + ["projections"]))
    c["x0_kind"] = draw(st.sampled_from(["float", "float", "readonly", "int"]))
    if c["x0_kind"] == "int":
        c["x0"] = [float(round(v)) for v in c["x0"]]
    c["seeds"] = [draw(st.integers(0, 2 ** 16)), draw(st.integers(0, 2 ** 16))]
    return c


def one_run(case, seed):
    kind = case["x0_kind"]
    x0 = np.array(case["x0"], dtype=int if kind == "int" else float)
    holder = {}

    def hook(x0_, kw):
        if "bounds" in kw:
            lo, up = kw["bounds"]
            if kind == "readonly":
                for b in (lo, up):
                    if b is not None:
                        b.flags.writeable = False
            holder["bounds"] = (lo, up)
            holder["bounds_copy"] = tuple(None if b is None else b.copy() for b in (lo, up))
        holder["up"] = kw.get("user_params")
        holder["up_copy"] = copy.deepcopy(kw.get("user_params"))
        return x0_, kw
    if kind == "readonly":
        x0.flags.writeable = False
    x0_copy = x0.copy()
    o = sc.run_solve(case, x0_override=x0, np_seed=seed, kw_hook=hook)
    holder["x0"], holder["x0_copy"] = x0, x0_copy
    np.random.seed(seed)
    fresh = np.random.get_state()
    holder["rng_consumed"] = o.rng_after is not None and not (np.array_equal(fresh[1], o.rng_after[1]) and fresh[2] == o.rng_after[2])
    return o, holder


def untouched(res, holder):
    if not (holder["x0"].dtype == holder["x0_copy"].dtype and np.array_equal(holder["x0"], holder["x0_copy"])):
        res.fail("C19.inputs_untouched", "x0 was modified: %r -> %r" % (holder["x0_copy"], holder["x0"]))
    if "bounds" in holder:
        for name, b, c in zip(("lower", "upper"), holder["bounds"], holder["bounds_copy"]):
            if b is not None and not np.array_equal(b, c):
                res.fail("C19.inputs_untouched", "%s bound array was modified" % name)
    if holder["up"] != holder["up_copy"]:
        res.fail("C19.inputs_untouched", "user_params was modified: %r -> %r" % (holder["up_copy"], holder["up"]))


def same_result(a, b):
    if (a is None) != (b is None):
        return "one run returned a result, the other did not"
    if a is None:
        return None
    for name in ("x", "resid", "jacobian", "jacmin_eval_nums"):
        u, v = getattr(a, name), getattr(b, name)
        if (u is None) != (v is None) or (u is not None and not (np.asarray(u).shape == np.asarray(v).shape
                                                                  and np.array_equal(np.asarray(u), np.asarray(v), equal_nan=True))):
            return "%s differs" % name
    for name in ("nf", "nx", "nruns", "flag", "msg", "xmin_eval_num"):
        if getattr(a, name) != getattr(b, name):
            return "%s differs: %r vs %r" % (name, getattr(a, name), getattr(b, name))
    if not (a.obj == b.obj or (a.obj != a.obj and b.obj != b.obj)):
        return "obj differs: %r vs %r" % (a.obj, b.obj)
    da, db = a.diagnostic_info, b.diagnostic_info
    if (da is None) != (db is None):
        return "diagnostic table present in one result only"
    if da is not None:
        if list(da.columns) != list(db.columns) or len(da) != len(db):
            return "diagnostic tables differ in shape: %r vs %r" % (da.shape, db.shape)
        for col in da.columns:
            va, vb = list(da[col].values), list(db[col].values)
            for i in range(len(va)):
                x, y = va[i], vb[i]
                same = (x is None and y is None) or (isinstance(x, float) and isinstance(y, float) and x != x and y != y) or \
                    (np.array_equal(np.asarray(x, dtype=float), np.asarray(y, dtype=float), equal_nan=True)
                     if not isinstance(x, str) and x is not None and y is not None and not isinstance(y, str) else x == y)
                if not same:
                    return "diagnostic table differs: column %s row %d: %r vs %r" % (col, i, x, y)
    return None


def run(case):
    res = CaseResult()
    up = case["up"]
    randomised = any(up.get(k) for k in RANDOM_KEYS)
    if randomised and up.get("restarts.use_soft_restarts", True) is False and not any(up.get(k) for k in RANDOM_KEYS if k != "restarts.increase_npt"):
        randomised = False       # hard restarts re-initialise with coordinate directions even when npt grows: deterministic, compared
    o1, h1 = one_run(case, case["seeds"][0])
    untouched(res, h1)
    if isinstance(o1.exc, ValueError) and "read-only" in str(o1.exc):
        res.fail("C19.inputs_untouched", "solve tried to write into a read-only input array: %s" % o1.exc)
    res.classes.append("route:" + cl.route(o1))
    res.classes += case["tags"] + ["x0:" + case["x0_kind"]]
    if o1.exc is not None:
        res.count("exceptions")
    if not randomised:
        # an unrelated solve in between exposes state carried from call to call
        other = {"n": 2, "fam": "rosen", "m": 2, "x0": [-1.2, 1.0], "lower": None, "upper": None, "scaling": False, "npt": 3,
                 "rhobeg": None, "rhoend": 1e-6, "maxfun": 15, "up": {}, "np_seed": 1, "tags": []}
        sc.run_solve(other)
        o2, h2 = one_run(case, case["seeds"][1])
        untouched(res, h2)
        note = " [the global RNG was consumed during solve]" if (h1["rng_consumed"] or h2["rng_consumed"]) else ""
        if note:
            res.classes.append("rng-consumed-without-random-option")
        if len(o1.calls) != len(o2.calls):
            res.fail("C19.same_trace", "%d evaluations in the first call, %d in the second%s" % (len(o1.calls), len(o2.calls), note))
        else:
            for i, (c1, c2) in enumerate(zip(o1.calls, o2.calls)):
                if not np.array_equal(c1[0], c2[0]):
                    res.fail("C19.same_trace", "evaluation %d differs between two identical calls: %r vs %r%s" % (i + 1, c1[0].tolist(), c2[0].tolist(), note))
                    break
        msg = same_result(o1.soln, o2.soln)
        if msg:
            res.fail("C19.same_trace", "returned results differ: " + msg + note)
        res.classes.append("compared-twice")
    else:
        res.classes.append("random-option-on")
    lo, upb = sc.user_bounds(case)
    x0 = np.array(case["x0"], dtype=float)
    clipped = bool(np.any(x0 < lo) or np.any(x0 > upb)) or (case.get("proj") and any(sc.set_distance(sp, x0) > 0 for sp in case["proj"]))
    if clipped:
        res.classes.append("x0-needed-projection")
    res.nontrivial = bool(clipped or case.get("lower") is not None or case.get("upper") is not None)
    return res


def known_projection_init(case, clause, detail):
    return bool(case.get("proj")) and "global RNG was consumed" in detail


# ---------------------------------------------------------------------------------------------------------------------------
# isolation between calls: the same call must give the same trace whether or not a *different* call (same problem size, other
# options) was made earlier in the process. Each side runs in a fresh interpreter, so module-level state left behind by the first
# call of a process (caches keyed by problem size, mutated defaults) is visible - inside one long-lived process it is not.
def _digest(o):
    import hashlib
    h = hashlib.sha1()
    for x, _ in o.calls:
        h.update(np.ascontiguousarray(x, dtype=float).tobytes())
    s = o.soln
    if s is not None and s.x is not None:
        h.update(np.ascontiguousarray(s.x, dtype=float).tobytes())
        h.update(repr((s.nf, s.nx, s.nruns, s.flag, repr(float(s.obj)))).encode())
        if s.diagnostic_info is not None:
            h.update(s.diagnostic_info.to_json(double_precision=15).encode())      # e.g. the slow-iteration marks: state that need not move x
    return {"ncalls": len(o.calls), "digest": h.hexdigest(), "exc": repr(o.exc) if o.exc is not None else None,
            "summary": None if s is None else [int(s.nf), int(s.nruns), int(s.flag)]}


def _iso_main():
    import sys
    todo = json.load(sys.stdin)
    out = [_digest(sc.run_solve(c)) for c in todo]
    sys.stdout.write("ISO-RESULT " + json.dumps(out) + "\n")


def _fresh_process(case_list):
    import subprocess, sys
    r = subprocess.run([sys.executable, "-c", "from vp.props import c19; c19._iso_main()"], cwd=core.VERIF, input=json.dumps(case_list),
                       stdout=subprocess.PIPE, stderr=subprocess.PIPE, text=True, timeout=300, env=dict(os.environ))
    for line in r.stdout.splitlines():
        if line.startswith("ISO-RESULT "):
            return json.loads(line[len("ISO-RESULT "):])
    raise core.HarnessError("fresh-process run failed: %s" % (r.stderr[-400:],))


ISO_PROF = sc.make_prof(fams=["lin", "sinlin", "rosen", "hashed"], noise=False, avg=False, diag=1.0, reg=0.0, zero_resid=0.0, print_progress=0.0,
                        maxfuns=[20, 40], nmax=3, opts_list=[0, 2, 3, 4, 5, 6, 7, 12, 13], route_bias=0.0, rhoend_exps=[2, 3])


@st.composite
def iso_cases(draw):
    a = draw(sc.scenarios(ISO_PROF))
    if not a["up"] or all(k.startswith("logging.") for k in a["up"]):
        a["up"]["tr_radius.gamma_dec"] = 0.25       # the earlier call must set *something*
    return a


def run_iso(case):
    res = CaseResult()
    a = {k: v for k, v in case.items()}
    b = dict(a)
    b["up"] = {k: v for k, v in a["up"].items() if k.startswith("logging.")}      # same size, budget and noise flag; default options
    if any(b["up"].get(k) for k in RANDOM_KEYS) or b.get("noise_flag") != a.get("noise_flag"):
        return res
    alone = _fresh_process([b])[0]
    after = _fresh_process([a, b])[1]
    res.classes += ["iso:" + t for t in case["tags"][:3]]
    if alone["exc"] or after["exc"]:
        res.count("exceptions")
    if alone["digest"] != after["digest"]:
        res.fail("C19.same_trace", "the same call gives a different trace after an earlier call with other options in the same process: "
                 "alone %r, after the other call %r" % (alone["summary"] + [alone["ncalls"]] if alone["summary"] else alone, after["summary"] + [after["ncalls"]] if after["summary"] else after))
    res.nontrivial = True
    return res


PROFILES = {"solve": Profile("solve", cases, run, quick=3000, thorough=60000, timeout=180),
            "isolation": Profile("isolation", iso_cases, run_iso, quick=64, thorough=1500, timeout=600)}
KNOWN = {"projection-init-random-fallback": known_projection_init}
