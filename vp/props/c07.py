"""C07 - solve always returns a well-formed result; bad input is reported, not raised."""
import os, re, json, math
import numpy as np
from hypothesis import strategies as st

from .. import core
from ..core import CaseResult, Profile
from .. import scenario as sc, clauses as cl

dfols = core.import_dfols()
import dfols.controller as _C  # noqa: E402

PROP = "C07"
LEVEL = "exploration"
RULE = ("Profile 'sweep' (exhaustive): every documented key x every in-range, boundary, out-of-range and wrong-type value from the "
        "committed table x twelve base problems that use the key's feature. Profile 'args' (sampled): three generated classes over small random problems (n<=3, budgets <=40, LIN/SINLIN/HASHED/SCRIPT, none/box/"
        "scaled bounds, optional regulariser or projections). (a) valid: one or two user_params keys set to in-range or "
        "boundary values taken from a committed snapshot of the per-key type/range table (71 documented keys; default, "
        "both interval ends, default x 0.1 / x 10 clipped, None where allowed), on a base problem that actually uses the "
        "feature the key belongs to (restarts, growing, regression, regulariser, projections, noise). (b) invalid: exactly "
        "the classes the statement lists - non-positive/inconsistent radii, npt<n+1, maxfun<=0, too-narrow / zero-width / "
        "inverted bounds with and without scaling, h without prox or lh, lh<=0, out-of-range and "
        "wrongly typed parameter values, the documented contradictory option pairs. (c) unknown parameter name. "
        "Profile 'omnibus' (sampled): the documented-domain scenarios of the other solve-level checks (n<=4; starts on/outside bounds, "
        "scaling, averaging, noise, soft/hard restarts with npt growth, growing variants, regression steps, regularisers, tiny "
        "budgets), judged by the 'valid' clauses only. "
        "Non-trivial = class (b)/(c), or a boundary value, or a valid run ending on a non-success flag. "
        "Non-termination is decided deterministically (20000 main-loop iterations without an evaluation).")
ASSUMPTIONS = ["the validity oracle is the harness's own re-statement of the documented rules plus the snapshot "
               "vp/props/param_table.json of the type/range table (independent of the tree under test)",
               "exit-code names are parsed from docs/userguide.rst at run time",
               "five end-of-interval values that make the algorithm degenerate (tr_radius.alpha1=1.0, slow.history_for_slow=0, "
               "func_tol.max_iters=0, and with a regulariser func_tol.criticality_measure=0.0 / func_tol.tr_step=1.0) may "
               "either be rejected as input errors or run normally; they must not raise or hang",
               "arguments of the wrong Python type (lists for arrays, NaN in x0) are outside the statement's list and are "
               "not generated; nor are the out-of-domain combinations of DESIGN.md section 3.4"]

TABLE = json.load(open(os.path.join(os.path.dirname(__file__), "param_table.json")))
KEYS = sorted(TABLE)
_guide = os.path.join(core.REPO, "docs", "userguide.rst")
DOC_FLAGS = sorted(set(re.findall(r"soln\.(EXIT_[A-Z_]+)", open(_guide).read()))) if os.path.exists(_guide) else []
if len(DOC_FLAGS) < 5:
    raise core.HarnessError("could not parse the exit-code names from docs/userguide.rst")
EITHER = {("tr_radius.alpha1", 1.0), ("dykstra.max_iters", 0), ("growing.delta_scale_new_dirns", 0.0), ("tr_radius.alpha1", 0.0), ("restarts.rhoend_scale", 0.0), ("general.safety_step_thresh", 0.0), ("slow.history_for_slow", 0), ("func_tol.max_iters", 0),
          ("func_tol.criticality_measure", 0.0), ("func_tol.tr_step", 1.0)}

BASE_PROF = sc.make_prof(fams=["lin", "sinlin", "hashed", "script"], nmax=3, mmax=4,
                         bounds=["none", "none", "box", "box", "scaled", "lower"], maxfuns=[3, 10, 25, 40, "npt+1"],
                         diag=0.2, reg=0.0, zero_resid=0.05, place_full=False, rhoend_exps=[1, 2, 3])


def defaults(key, n, npt, maxfun, noise):
    d = {"general.rounding_error_constant": 0.1, "general.safety_step_thresh": 0.5, "logging.n_to_print_whole_x_vector": 6,
         "tr_radius.eta1": 0.1, "tr_radius.eta2": 0.7, "tr_radius.gamma_dec": 0.98 if noise else 0.5, "tr_radius.gamma_inc": 2.0,
         "tr_radius.gamma_inc_overline": 4.0, "tr_radius.alpha1": 0.9 if noise else 0.1, "tr_radius.alpha2": 0.95 if noise else 0.5,
         "model.abs_tol": 1e-12, "model.rel_tol": 1e-20, "slow.history_for_slow": 5, "slow.thresh_for_slow": 1e-4,
         "slow.max_slow_iters": 20 * n, "noise.scale_factor_for_quit": 1.0, "noise.multiplicative_noise_level": 1e-2,
         "noise.additive_noise_level": 1e-2, "regression.num_extra_steps": 0, "regression.increase_num_extra_steps_with_restart": 0,
         "restarts.max_unsuccessful_restarts": 10, "restarts.rhoend_scale": 1.0, "restarts.soft.num_geom_steps": 3,
         "restarts.soft.max_fake_successful_steps": maxfun, "restarts.increase_npt_amt": 1,
         "restarts.hard.increase_ndirs_initial_amt": 1, "restarts.max_npt": npt, "restarts.auto_detect.history": 30,
         "restarts.auto_detect.min_chgJ_slope": 1.5e-2, "restarts.auto_detect.min_correl": 0.1, "growing.ndirs_initial": npt - 1,
         "growing.num_new_dirns_each_iter": 0, "growing.delta_scale_new_dirns": 1.0, "growing.gamma_dec": 0.98 if noise else 0.5,
         "growing.full_rank.scale_factor": 1e-2, "growing.full_rank.svd_scale_factor": 1.0, "growing.full_rank.min_sing_val": 1e-6,
         "growing.full_rank.svd_max_jac_cond": 1e8, "dykstra.d_tol": 1e-10, "dykstra.max_iters": 100, "matrix_rank.r_tol": 1e-18,
         "func_tol.criticality_measure": 1e-3, "func_tol.tr_step": 0.9, "func_tol.max_iters": 500, "sfista.max_iters_scaling": 2.0}
    return d.get(key)


def resolve(v, npt):
    if v == "npt":
        return npt
    if v == "npt-1":
        return npt - 1
    return v


def valid_values(key, n, npt, maxfun, noise):
    """In-range and boundary values for a key, as (value, is_boundary) pairs (no astronomically large inventions)."""
    t = TABLE[key]
    lo, hi = resolve(t["lower"], npt), resolve(t["upper"], npt)
    out = []
    if t["type"] == "bool":
        return [(True, False), (False, False)]
    d = defaults(key, n, npt, maxfun, noise)
    if t["type"] == "int":
        cand = [(d, False), (d + 1, False)]
        if lo is not None:
            cand += [(lo, True), (lo + 1, False)]
        if hi is not None:
            cand += [(hi, True)]
        for v, b in cand:
            if v is None or (lo is not None and v < lo) or (hi is not None and v > hi):
                continue
            out.append((int(v), b))
    else:
        cand = [(d, False)]
        if d:
            cand += [(d * 0.1, False), (d * 10.0, False), (d * 1e-3, False)]
        if lo is not None:
            cand.append((float(lo), True))
        if hi is not None:
            cand.append((float(hi), True))
        for v, b in cand:
            if v is None:
                continue
            v = float(v)
            if lo is not None:
                v = max(v, float(lo))
            if hi is not None:
                v = min(v, float(hi))
            out.append((v, b or v == lo or v == hi))
    if t["none_ok"]:
        out.append((None, True))
    seen, uniq = set(), []
    for v, b in out:
        k = (type(v).__name__, v)
        if k not in seen:
            seen.add(k)
            uniq.append((v, b))
    return uniq


def invalid_values(key, npt):
    t = TABLE[key]
    lo, hi = resolve(t["lower"], npt), resolve(t["upper"], npt)
    out = []
    if t["type"] == "bool":
        out += [0, 1, "True", 0.0]
    elif t["type"] == "int":
        out += ["3", 2.0, 1.5]
        if lo is not None:
            out += [lo - 1, lo - 100]
        if hi is not None:
            out += [hi + 1]
    else:
        out += ["0.5", 1]
        if lo is not None:
            out += [float(lo) - 0.5, -1e3 if lo >= 0 else float(lo) - 1e3]
        if hi is not None:
            out += [float(hi) + 0.5, float(np.nextafter(float(hi), math.inf))]
        if lo is not None and lo == 0.0:
            out += [-5e-324]
    # None is not generated: ParameterList treats new_value=None as "read the value", so None means "not set"
    return out


def feature_base(draw, key, case):
    """Make the base problem actually use the feature the key controls (construction, not rejection)."""
    n = case["n"]
    up = case["up"]
    pre = key.split(".")[0]
    maxnpt = (n + 1) * (n + 2) // 2
    if case.get("proj"):
        # with projections the point count must stay n+1 (known finding 'projections-npt'): only switch restarts on
        if pre == "restarts":
            up["restarts.use_restarts"] = True
            if ".hard." in key:
                up["restarts.use_soft_restarts"] = False
        return
    if pre == "restarts":
        up["restarts.use_restarts"] = True
        if ".hard." in key or draw(st.booleans()):
            up["restarts.use_soft_restarts"] = False
        if key in ("restarts.increase_npt_amt", "restarts.max_npt") and n > 1 and case["npt"] < maxnpt \
                and "growing.ndirs_initial" not in up:
            up["restarts.increase_npt"] = True
            if key != "restarts.max_npt":
                up["restarts.max_npt"] = min(case["npt"] + 2, maxnpt)
        if key.startswith("restarts.auto_detect."):
            up.pop("restarts.auto_detect", None)
    elif pre == "growing" and n > 1 and case["npt"] == n + 1 and not up.get("restarts.increase_npt") \
            and key != "growing.ndirs_initial":
        up.setdefault("growing.ndirs_initial", draw(st.integers(1, n - 1)))
    elif pre == "regression":
        case["npt"] = min(2 * n + 1, maxnpt)
        up.pop("growing.ndirs_initial", None)
        if key != "regression.num_extra_steps":
            up["regression.num_extra_steps"] = 1
    elif pre in ("func_tol", "sfista") and not case["scaling"]:
        case["reg"] = {"kind": draw(st.sampled_from(["l1", "l2"])), "lam": 10.0 ** draw(st.integers(-2, 0)), "conv": "closure"}
        case["maxfun"] = min(case["maxfun"] or 12, 12)
    elif pre in ("dykstra", "matrix_rank"):
        add_projections(draw, case)
    elif pre == "noise" and key != "noise.quit_on_noise_level":
        up["noise.quit_on_noise_level"] = True
        if key == "noise.scale_factor_for_quit" and "noise.multiplicative_noise_level" not in up:
            up["noise.additive_noise_level"] = 1e-3


def add_projections(draw, case):
    n = case["n"]
    z = case["x0"]
    case["proj"] = draw(sc.draw_sets(n, z, max(1.0, max(abs(v) for v in z)) * 0.5, nmin=1, nmax=2))
    case["npt"] = n + 1
    case["scaling"] = False
    case["lower"] = case["upper"] = None
    if case["rhobeg"] is None or True:
        case["rhobeg"] = 0.1 * max(max(abs(v) for v in z), 1.0)
        case["rhoend"] = case["rhobeg"] * 1e-3
    case["maxfun"] = min(case["maxfun"] or 15, 15)
    for k in ("growing.ndirs_initial", "restarts.increase_npt", "restarts.max_npt", "restarts.increase_npt_amt",
              "init.random_initial_directions", "init.run_in_parallel", "init.random_directions_make_orthogonal"):
        case["up"].pop(k, None)
    for k in [k for k in case["up"] if k.startswith("growing.") or k.startswith("regression.")]:
        case["up"].pop(k)
    case.pop("reg", None)


def conflicts(up, key, value, case):
    """Would adding key=value to this base leave the documented/observed domain (section 3.4) or contradict?"""
    n, npt = case["n"], case["npt"]
    maxnpt = (n + 1) * (n + 2) // 2
    t = dict(up)
    t[key] = value
    if t.get("growing.ndirs_initial", npt - 1) < npt - 1 and (npt != n + 1 or t.get("restarts.increase_npt")):
        return True
    if t.get("restarts.max_npt", npt) > maxnpt and not t.get("init.random_initial_directions"):
        return True
    if case.get("proj") and (t.get("growing.ndirs_initial", n) < n or t.get("restarts.increase_npt")
                             or t.get("init.random_initial_directions")):
        return True
    if t.get("restarts.increase_npt") and t.get("restarts.use_soft_restarts", True) is False and \
            t.get("restarts.increase_npt_amt", 1) > t.get("restarts.hard.increase_ndirs_initial_amt", 1):
        return True     # known finding 'hard-restart-npt-growth' (pinned replay only)
    return False


def contradictory(up, n, npt, noise):
    full_rank = up.get("growing.full_rank.use_full_rank_interp", True)
    if up.get("growing.safety.full_geom_step", False) and up.get("growing.safety.reduce_delta", False):
        return True
    if full_rank and up.get("growing.perturb_trust_region_step", False):
        return True
    if up.get("noise.quit_on_noise_level", bool(noise)) and up.get("noise.multiplicative_noise_level") is not None \
            and up.get("noise.additive_noise_level") is not None:
        return True
    rnd = up.get("init.random_initial_directions", npt > (n + 1) * (n + 2) // 2)
    if up.get("init.run_in_parallel", False) and not rnd:
        return True
    if up.get("growing.reset_rho", False) and not up.get("growing.reset_delta", False):
        return True
    return False


def param_ok(key, v, npt):
    t = TABLE[key]
    lo, hi = resolve(t["lower"], npt), resolve(t["upper"], npt)
    if v is None:
        return t["none_ok"]
    if t["type"] == "bool":
        return isinstance(v, bool)
    if t["type"] == "int":
        if not isinstance(v, int):
            return False
    elif not isinstance(v, float):
        return False
    return (lo is None or v >= lo) and (hi is None or v <= hi)


@st.composite
def cases(draw):
    base = draw(sc.scenarios(BASE_PROF))
    base.pop("nsamples", None) if draw(st.integers(0, 2)) else None
    n = base["n"]
    cls = draw(st.sampled_from(["valid", "valid", "valid", "invalid", "invalid", "unknown"]))
    mut = {}
    tags = []
    noise = bool(base.get("noise_flag"))
    if cls == "valid":
        if draw(st.integers(0, 9)) == 0 and not base["scaling"]:
            add_projections(draw, base)
            tags.append("projections")
        nkeys = draw(st.sampled_from([1, 1, 2]))
        for _ in range(nkeys):
            key = draw(st.sampled_from(KEYS))
            if key in base["up"] or key in mut.get("params", {}):
                continue
            if draw(st.integers(0, 2)) > 0:
                feature_base(draw, key, base)
            if key in base["up"]:
                continue
            vals = valid_values(key, n, base["npt"], base["maxfun"] or 100, noise)
            v, boundary = draw(st.sampled_from(vals))
            if key == "growing.ndirs_initial" and v < base["npt"] - 1 and base["npt"] != n + 1:
                continue
            if key == "restarts.max_npt":
                v = min(max(v, base["npt"]), (n + 1) * (n + 2) // 2)
            if conflicts(base["up"], key, v, base):
                continue
            trial = dict(base["up"])
            trial.update(mut.get("params", {}))
            trial[key] = v
            if contradictory(trial, n, base["npt"], noise):
                continue
            if key == "dykstra.d_tol" and v == 0.0:
                base["maxfun"] = min(base["maxfun"] or 8, 8)
            mut.setdefault("params", {})[key] = v
            if boundary:
                tags.append("boundary")
        sanitize(base, mut, noise)
        if any((k, v) in EITHER for k, v in mut.get("params", {}).items()) or \
                any((k, v) in EITHER for k, v in base["up"].items()):
            cls = "either"
        if not any(b for (_k, b) in [(k, True) for k in mut.get("params", {})]):
            tags = [t for t in tags if t != "boundary"]
    elif cls == "invalid":
        what = draw(st.sampled_from(["rhobeg", "rhoend", "rhobeg<=rhoend", "npt", "maxfun", "gap", "gap",
                                     "reg_args", "param_range", "param_range", "param_type", "param_type", "contradictory"]))
        mut["what"] = what
        if what == "rhobeg":
            mut["rhobeg"] = draw(st.sampled_from([0.0, -1.0, -1e-300]))
        elif what == "rhoend":
            mut["rhoend"] = draw(st.sampled_from([0.0, -1e-8]))
        elif what == "rhobeg<=rhoend":
            rb = base["rhobeg"] if base["rhobeg"] is not None else 0.1
            mut["rhobeg"] = rb
            mut["rhoend"] = rb * draw(st.sampled_from([1.0, 2.0]))
        elif what == "npt":
            mut["npt"] = draw(st.sampled_from([n, 1, 0, -1]))
        elif what == "maxfun":
            mut["maxfun"] = draw(st.sampled_from([0, -1, -100]))
        elif what == "gap":
            # too narrow / zero width / inverted, with and without scaling
            x0 = base["x0"]
            rb = base["rhobeg"] if base["rhobeg"] is not None else 0.1 * max(max(abs(v) for v in x0), 1.0)
            i = draw(st.integers(0, n - 1))
            kind = draw(st.sampled_from(["narrow", "narrow_hair", "zero", "inverted"]))
            w = {"narrow": rb, "narrow_hair": 2 * rb * (1 - 1e-12), "zero": 0.0, "inverted": -rb}[kind]
            lo = [x0[j] - 5 * rb for j in range(n)]
            up = [x0[j] + 5 * rb for j in range(n)]
            lo[i] = x0[i] - w / 2
            up[i] = lo[i] + w
            if kind in ("narrow", "narrow_hair"):
                # "too narrow" must be true of the float64 numbers the solver sees: at |x0| >> rhobeg the 1e-12 hair is
                # below an ulp of the bounds and fl(up - lo) can round up to 2*rhobeg (a false alarm of an earlier version)
                for _ in range(64):
                    if up[i] - lo[i] < 2 * rb:
                        break
                    up[i] = float(np.nextafter(up[i], -math.inf))
            mut["lower"], mut["upper"] = lo, up
            mut["rhobeg"] = rb
            mut["scaling"] = draw(st.booleans())
            if mut["scaling"] and kind in ("narrow", "narrow_hair"):
                # in the scaled space the gap is always 1: too narrow means rhobeg > 0.5 there
                mut["rhobeg"] = draw(st.sampled_from([0.51, 1.0, 10.0]))
            mut["gapkind"] = kind
        elif what == "reg_args":
            mut["reg"] = draw(st.sampled_from(["no_prox", "no_lh", "lh_zero", "lh_negative"]))
        elif what in ("param_range", "param_type"):
            key = draw(st.sampled_from(KEYS))
            bad = [v for v in invalid_values(key, base["npt"]) if not param_ok(key, v, base["npt"])]
            if what == "param_type":
                bad2 = [v for v in bad if isinstance(v, str) or (TABLE[key]["type"] == "int" and isinstance(v, float))
                        or (TABLE[key]["type"] == "float" and isinstance(v, int))
                        or (TABLE[key]["type"] == "bool")]
                bad = bad2 or bad
            else:
                bad2 = [v for v in bad if v is not None and not isinstance(v, str) and TABLE[key]["type"] != "bool"
                        and isinstance(v, float if TABLE[key]["type"] == "float" else int)]
                bad = bad2 or bad
            base["up"].pop(key, None)
            mut["params"] = {key: draw(st.sampled_from(bad))}
        else:
            pair = draw(st.sampled_from([
                {"growing.safety.full_geom_step": True, "growing.safety.reduce_delta": True},
                {"growing.perturb_trust_region_step": True},
                {"growing.full_rank.use_full_rank_interp": True, "growing.perturb_trust_region_step": True},
                {"noise.quit_on_noise_level": True, "noise.multiplicative_noise_level": 0.01, "noise.additive_noise_level": 0.01},
                {"init.run_in_parallel": True},
                {"init.run_in_parallel": True, "init.random_initial_directions": False},
                {"growing.reset_rho": True},
                {"growing.reset_rho": True, "growing.reset_delta": False}]))
            for k in list(pair):
                base["up"].pop(k, None)
            for k in ("init.random_initial_directions", "growing.reset_delta", "growing.full_rank.use_full_rank_interp"):
                if k not in pair:
                    base["up"].pop(k, None)
            mut["params"] = pair
    else:
        name = draw(st.sampled_from(["restarts.use_restart", "tr_radius.eta3", "general", "", "Restarts.use_restarts",
                                     "logging.save_diagnostic_info ", "growing.ndirs", "noise", "maxfun"]))
        mut["params"] = {name: draw(st.sampled_from([True, 1, 0.5, None]))}
    return {"base": base, "cls": cls, "mut": mut, "tags": sorted(set(tags))}


def kw_hook_for(case):
    mut = case["mut"]
    base = case["base"]

    def hook(x0, kw):
        for k in ("rhobeg", "rhoend", "npt", "maxfun"):
            if k in mut:
                kw[k] = mut[k]
        if "lower" in mut:
            kw["bounds"] = (np.array(mut["lower"], dtype=float), np.array(mut["upper"], dtype=float))
        if "scaling" in mut:
            kw["scaling_within_bounds"] = bool(mut["scaling"])
        if "params" in mut:
            up = dict(kw.get("user_params") or {})
            up.update(mut["params"])
            kw["user_params"] = up
        if "reg" in mut:
            lam = 0.1
            kw["h"] = lambda x, *a: lam * float(np.sum(np.abs(x)))
            kw["prox_uh"] = lambda x, u, *a: np.sign(x) * np.maximum(np.abs(x) - lam * u, 0.0)
            kw["lh"] = lam * math.sqrt(len(x0))
            if mut["reg"] == "no_prox":
                kw["prox_uh"] = None
            elif mut["reg"] == "no_lh":
                kw["lh"] = None
            elif mut["reg"] == "lh_zero":
                kw["lh"] = 0.0
            else:
                kw["lh"] = -1.0
            kw.pop("scaling_within_bounds", None)
        return x0, kw
    return hook


def innermost_dfols_frame(exc):
    """module.function of the innermost traceback frame that lies in the dfols package (call-site identification)."""
    import traceback
    where = "?"
    for fr in traceback.extract_tb(exc.__traceback__):
        if os.sep + "dfols" + os.sep in fr.filename:
            where = "%s.%s" % (os.path.splitext(os.path.basename(fr.filename))[0], fr.name)
    return where


def check_result_shape(res, s):
    names = {}
    for name in DOC_FLAGS:
        if not hasattr(s, name):
            res.fail("C07.constants", "result has no attribute %s (named in the user guide)" % name)
        else:
            names[name] = getattr(s, name)
    if len(set(names.values())) != len(names):
        res.fail("C07.constants", "exit-code constants are not pairwise distinct: %r" % names)
    documented = set(getattr(_C, nme) for nme in DOC_FLAGS if hasattr(_C, nme)) | set(names.values())
    if s.flag not in documented:
        res.fail("C07.flag_documented", "flag %r is not one of the documented exit codes" % (s.flag,))
    if not isinstance(s.msg, str) or not s.msg.strip() or s.msg.startswith("Unknown exit flag"):
        res.fail("C07.msg", "message %r" % (s.msg,))
    try:
        txt = str(s)
        if not txt.strip():
            res.fail("C07.prints", "str(soln) is empty")
    except Exception as e:
        res.fail("C07.prints", "str(soln) raised %s: %s" % (type(e).__name__, e))


def run(case):
    res = CaseResult()
    base = case["base"]
    cls = case["cls"]
    o = sc.run_solve(base, kw_hook=kw_hook_for(case))
    res.classes.append("class:" + cls)
    res.classes += case["tags"]
    if cls == "invalid":
        res.classes.append("invalid:" + case["mut"]["what"])
    s = o.soln
    if cls == "unknown":
        if not isinstance(o.exc, ValueError):
            res.fail("C07.unknown_key", "expected ValueError, got %s" % (("%s: %s" % (type(o.exc).__name__, o.exc)) if o.exc
                                                                          else "a result with flag %r" % getattr(s, "flag", None)))
        res.nontrivial = True
        return res
    if o.livelock:
        res.fail("C07.returns", "solve does not terminate (20000 iterations without an evaluation)")
        res.nontrivial = True
        return res
    if o.exc is not None:
        res.fail("C07.returns" if cls != "invalid" else "C07.input_error",
                 "solve raised %s: %s [in %s]" % (type(o.exc).__name__, str(o.exc)[:150], innermost_dfols_frame(o.exc)))
        res.nontrivial = True
        return res
    check_result_shape(res, s)
    inp_err = getattr(s, "EXIT_INPUT_ERROR", -1)
    if cls == "invalid":
        if s.flag != inp_err:
            res.fail("C07.input_error", "invalid input accepted: flag %r, %s" % (s.flag, s.msg))
        elif s.nf != 0 or len(o.calls) != 0:
            res.fail("C07.input_error", "input error but nf=%r and %d calls were made" % (s.nf, len(o.calls)))
        res.nontrivial = True
    elif cls == "valid":
        if s.flag == inp_err:
            res.fail("C07.valid_accepted", "documented-valid input rejected: %s" % s.msg)
        res.classes.append("route:" + cl.route(o))
        res.nontrivial = bool("boundary" in case["tags"] or s.flag != 0)
    else:
        res.classes.append("route:" + cl.route(o))
        res.nontrivial = True
    for k in (case["mut"].get("params") or {}):
        res.classes.append("prefix:" + k.split(".")[0]) if cls == "valid" else None
    return res


def known_projection_npt(case, clause, detail):
    b = case["base"]
    up = dict(b.get("up") or {})
    up.update(case["mut"].get("params") or {})
    # identified by call site: the RuntimeError raised at the end of the projected initial-direction construction.
    # Always reached with npt != n+1 or a reduced initial set; occasionally (about 1 run in 500) with npt = n+1 when x0
    # is projected onto a corner of a thin feasible set and the rank repair runs out of attempts.
    return bool(b.get("proj")) and "Unable to generate suitable initial directions" in detail


def known_projection_collapsed_init(case, clause, detail):
    # call site: ZeroDivisionError in Model.interpolation_matrix (all interpolation points coincide) in a projection run whose
    # projection routine is allowed to work (dykstra.max_iters >= 1): the projected coordinate steps collapsed onto the start point
    b = case["base"]
    up = dict(b.get("up") or {})
    up.update(case["mut"].get("params") or {})
    return bool(b.get("proj")) and "ZeroDivisionError" in detail and "[in model.interpolation_matrix]" in detail \
        and up.get("dykstra.max_iters", 100) >= 1


def known_hard_npt_growth(case, clause, detail):
    b = case["base"]
    up = dict(b.get("up") or {})
    up.update(case["mut"].get("params") or {})
    return bool(up.get("restarts.use_restarts")) and up.get("restarts.use_soft_restarts", True) is False and \
        bool(up.get("restarts.increase_npt")) and \
        up.get("restarts.increase_npt_amt", 1) > up.get("restarts.hard.increase_ndirs_initial_amt", 1) and \
        "ZeroDivisionError" in detail


def known_subnormal_gap(case, clause, detail):
    b = case["base"]
    lo = b.get("lower") or []
    up = b.get("upper") or []
    x0 = b["x0"]
    sub = any(0 < abs(x0[i] - v[i]) < 1e-150 for v in (lo, up) if v for i in range(len(x0)))
    return sub and "array must not contain infs or NaNs" in detail


def sanitize(base, mut, noise):
    """Last line of generator soundness: the final combination must be valid by the harness's own oracle."""
    n, npt = base["n"], base["npt"]
    up = base["up"]
    params = mut.get("params", {})
    merged = dict(up)
    merged.update(params)
    if merged.get("restarts.max_npt", npt) < npt:
        (params if "restarts.max_npt" in params else up)["restarts.max_npt"] = npt
    for key in list(params):
        trial = dict(up)
        trial.update(params)
        if contradictory(trial, n, npt, noise) or conflicts(dict(up, **{k: v for k, v in params.items() if k != key}), key, params[key], base) \
                or not param_ok(key, params[key], npt):
            params.pop(key)
    if contradictory(dict(up, **params), n, npt, noise) or any(not param_ok(k, v, npt) for k, v in up.items()):
        base["up"] = {k: v for k, v in up.items() if k.startswith("logging.")}
        mut.pop("params", None)
    if "params" in mut and not mut["params"]:
        mut.pop("params")


# ----------------------------------------------------------------------------------------------------------------------
# exhaustive single-key sweep: every key x every in-range / boundary / out-of-range / wrong-type value x base problems that
# use the feature the key belongs to (the design's "quick tier" sweep; a finite space, enumerated completely)
def _base(n, fam, **kw):
    c = {"n": n, "fam": fam, "m": n + 1, "A": [[1.0 if i == j else 0.25 for i in range(n)] for j in range(n + 1)],
         "b": [0.5 + 0.1 * j for j in range(n + 1)], "gamma": 0.5, "omega": 3.0, "amp": 0.3, "prf_seed": 3, "x0": [0.3] * n,
         "lower": None, "upper": None, "scaling": False, "npt": n + 1, "rhobeg": 0.1, "rhoend": 1e-5, "maxfun": 40, "up": {},
         "np_seed": 1, "tags": []}
    c.update(kw)
    return c


SWEEP_BASES = [
    ("plain", _base(2, "sinlin"), None),
    ("soft-restarts", _base(2, "hashed", up={"restarts.use_restarts": True}, noise_flag=True), None),
    ("hard-restarts", _base(2, "hashed", up={"restarts.use_restarts": True, "restarts.use_soft_restarts": False}), ("restarts", "slow", "tr_radius", "general", "model")),
    ("scaled-box", _base(2, "sinlin", lower=[0.0, 0.0], upper=[1.0, 0.7], scaling=True, rhobeg=None), ("tr_radius", "general", "model", "init", "interpolation", "logging")),
    ("growing", _base(3, "sinlin", up={"growing.ndirs_initial": 1}), ("growing", "general", "tr_radius", "interpolation")),
    ("regression", _base(2, "hashed", npt=5, up={"regression.num_extra_steps": 1}), ("regression", "restarts", "general")),
    ("regulariser", _base(2, "lin", reg={"kind": "l1", "lam": 0.1, "conv": "closure"}, maxfun=8), ("func_tol", "sfista", "dykstra")),
    ("projections", _base(2, "lin", proj=[{"kind": "ball", "c": [0.0, 0.0], "r": 1.0}, {"kind": "half", "a": [1.0, 1.0], "beta": 1.0}], maxfun=10),
     ("dykstra", "matrix_rank")),
    ("noise-quit", _base(2, "hashed", up={"noise.quit_on_noise_level": True, "noise.additive_noise_level": 1e-2}), ("noise", "slow")),
    # three bases distilled from rare multi-seed findings: each makes one family of keys bite
    ("growing-safety-steps", _base(3, "lin", m=1, A=[[1.0, 0.0, 0.0]], b=[0.0], x0=[0.1, 0.0, 0.0], rhobeg=None, rhoend=1e-2, maxfun=10,
                                   noise_flag=True, up={"growing.ndirs_initial": 1}), ("growing",)),
    ("soft-restarts-adding-points", _base(3, "script", m=1, script=[[1.0]], lower=[0.0, 0.0, 0.0], upper=[0.2, 0.2, 0.2], x0=[0.05, 0.05, 0.05],
                                          rhoend=1e-2, maxfun=10, noise_flag=True,
                                          up={"restarts.use_restarts": True, "restarts.increase_npt": True, "restarts.max_npt": 6}), ("restarts",)),
    ("projections-centre-start", _base(1, "lin", m=2, A=[[1.0], [0.0]], b=[0.0, 0.0], x0=[-50.0], rhobeg=5.0, rhoend=5e-3, maxfun=10,
                                       proj=[{"kind": "ball", "c": [-50.0], "r": 1.25}],
                                       up={"restarts.use_restarts": True, "restarts.use_soft_restarts": False, "restarts.hard.use_old_rk": False}),
     ("dykstra", "matrix_rank")),
]


def sweep_cases(tier):
    out = []
    for name, b, prefixes in SWEEP_BASES:
        noise = bool(b.get("noise_flag"))
        for key in KEYS:
            if prefixes is not None and key.split(".")[0] not in prefixes:
                continue
            if key in b["up"]:
                continue
            for v, bd in valid_values(key, b["n"], b["npt"], b["maxfun"], noise):
                if key == "restarts.max_npt":
                    v = min(max(v, b["npt"]), (b["n"] + 1) * (b["n"] + 2) // 2)
                if key == "growing.ndirs_initial" and v < b["npt"] - 1 and (b["npt"] != b["n"] + 1 or b.get("proj")):
                    continue
                trial = dict(b["up"])
                trial[key] = v
                if conflicts(b["up"], key, v, b) or contradictory(trial, b["n"], b["npt"], noise):
                    continue
                if key in ("dykstra.d_tol",) and v == 0.0 and name in ("regulariser", "projections"):
                    continue     # every projection then runs all sweeps: slow, nothing else (DESIGN C07)
                cls = "either" if (key, v) in EITHER else "valid"
                out.append({"base": json.loads(json.dumps(b)), "cls": cls, "mut": {"params": {key: v}},
                            "tags": ["sweep:" + name] + (["boundary"] if bd else [])})
            for v in invalid_values(key, b["npt"]):
                if param_ok(key, v, b["npt"]):
                    continue
                out.append({"base": json.loads(json.dumps(b)), "cls": "invalid", "mut": {"what": "param_sweep", "params": {key: v}},
                            "tags": ["sweep:" + name]})
    return out


# Omnibus profile: the documented-domain scenarios that the *other* solve-level properties generate (bounds geometry with starts on /
# outside bounds, scaling, averaging, noise, soft/hard restarts with npt growth, growing variants, regression steps, regularisers,
# tiny budgets, zero-residual problems). Those checks only count an exception; here it is judged (C07.returns / C07.valid_accepted).
OMNI_PROFS = [sc.make_prof(reg=0.1, zero_resid=0.1, diag=0.5, nolog=0.1),
              sc.make_prof(bounds=["box", "box", "lower", "upper", "mixed", "scaled", "scaled"], reg=0.1, zero_resid=0.05, regression_bias=0.12,
                           opts_list=[0, 0, 0, 0, 0, 1, 1, 2, 3, 4, 5, 6, 7, 8, 9, 12, 13]),
              sc.make_prof(fams=["lin", "sinlin", "rosen", "hashed", "hashed", "script"], diag=1.0, reg=0.06, zero_resid=0.05,
                           maxfuns=["npt+1", 10, 30, 60, 150, 150]),
              sc.make_prof(maxfuns=[1, 2, 3, "npt-1", "npt", "npt+1", 10, 30, 60, 150, 5, 7, 20, 45, 90], diag=0.2, avg_prob=0.45)]


@st.composite
def omni_cases(draw):
    base = draw(sc.scenarios(draw(st.sampled_from(OMNI_PROFS))))
    return {"base": base, "cls": "valid", "mut": {}, "tags": ["omnibus"] + list(base["tags"])}


PROFILES = {"args": Profile("args", cases, run, quick=4000, thorough=100000, timeout=120),
            "omnibus": Profile("omnibus", omni_cases, run, quick=5000, thorough=150000, timeout=120),
            "sweep": Profile("sweep", None, run, quick=0, thorough=0, timeout=120, enumerate=sweep_cases)}


def coverage_extra(tier, merged):
    return {"explanation": "profile 'sweep' enumerates completely: every documented key x every in-range/boundary/out-of-range/"
            "wrong-type value of the committed table x the base problems that use the key's feature; profile 'args' is sampled"}
KNOWN = {"projections-npt": known_projection_npt,
         "hard-restart-npt-growth": known_hard_npt_growth, "subnormal-gap": known_subnormal_gap}
