"""C20 - results survive a JSON round trip and always print."""
import json, math
import numpy as np
from hypothesis import strategies as st

from .. import core
from ..core import CaseResult, Profile
from .. import scenario as sc, clauses as cl

dfols = core.import_dfols()

PROP = "C20"
LEVEL = "exploration"
RULE = ("Two generated sources of result objects. 'run': results harvested from solve over the scenario space of C03/C10 "
        "(all exit routes, restarts, averaging, scaling, diagnostics on/off, residual vectors beyond the printing threshold "
        "m>=100 and Jacobians with m*n>=200) including NaN/inf objective values injected at a drawn evaluation (so NaN "
        "entries and early exits without Jacobian occur). 'synthetic': OptimResults built directly with drawn fields "
        "(NaN entries, jacobian None, long evaluation-number lists, diagnostic tables with NaN/None cells). Oracle: "
        "round trip from_dict(json.loads(json.dumps(to_dict()))) compared field by field + str() equality. "
        "logging.save_xk/save_rk are excluded by construction (known finding, pinned replay). "
        "Non-trivial = the result contains a NaN/None entry, or has no Jacobian, or carries a diagnostic table, or exceeds a "
        "printing threshold. Distinct = SHA-1 of the case JSON.")
ASSUMPTIONS = ["strict JSON (allow_nan=False) is asserted when replace_nan=True and the result holds no +-inf (NaN replacement "
               "does not promise anything about infinities)",
               "arrays are compared bitwise with NaN == NaN and None == NaN; table cells with NaN == None; JSON object keys "
               "are strings, so index labels are compared as strings",
               "input-error results carry no solution and are outside the statement"]

RUN_PROF = sc.make_prof(fams=["lin", "sinlin", "hashed", "script", "rosen", "big"], diag=0.6, zero_resid=0.15,
                        maxfuns=[1, 2, 3, "npt", "npt+1", 10, 30, 60], reg=0.0, nolog=0.05)


@st.composite
def cases(draw):
    if draw(st.integers(0, 3)) > 0:
        c = draw(sc.scenarios(RUN_PROF))
        c["up"].pop("logging.save_xk", None)
        c["up"].pop("logging.save_rk", None)
        if draw(st.integers(0, 2)) == 0:
            c["fault"] = {"k": draw(st.integers(1, 12)), "kind": draw(st.sampled_from(["nan", "nan", "inf", "big"])),
                          "comp": draw(st.sampled_from(["all", 0])), "sticky": draw(st.booleans())}
        return {"kind": "run", "scen": c, "replace_nan": draw(st.sampled_from([True, True, False]))}
    n = draw(st.sampled_from([1, 2, 3, 7]))
    m = draw(st.sampled_from([1, 2, 5, 99, 100, 150]))
    fl = st.one_of(st.floats(allow_nan=False, allow_infinity=False, width=64), st.just(float("nan")),
                   st.sampled_from([0.0, -0.0, 1.0, 1e-300, 1e300, 0.1]))
    x = [draw(fl) for _ in range(n)]
    resid = [draw(fl) if i < 4 else float(i) for i in range(m)]
    jac = None
    if draw(st.booleans()):
        jac = [[draw(fl) if (i < 2 and j < 2) else float(i - j) for j in range(n)] for i in range(m)]
    jen = None
    if draw(st.booleans()):
        jen = [draw(st.integers(0, 500)) for _ in range(draw(st.sampled_from([1, n + 1, 99, 100, 120])))]
    diag = None
    if draw(st.integers(0, 2)) == 0:
        rows = draw(st.integers(0, 4))
        diag = {"fk": [draw(fl) for _ in range(rows)], "ratio": [draw(st.sampled_from([None, 0.5, float("nan")])) for _ in range(rows)],
                "iter_type": [draw(st.sampled_from([None, "Safety", "Successful"])) for _ in range(rows)],
                "nf": [draw(st.integers(0, 100)) for _ in range(rows)]}
    return {"kind": "synthetic", "x": x, "resid": resid, "obj": draw(fl), "jac": jac, "nf": draw(st.integers(0, 10 ** 6)),
            "nx": draw(st.integers(0, 10 ** 6)), "nruns": draw(st.integers(1, 50)),
            "flag": draw(st.sampled_from([0, 1, 2, 3, 5, -2, -3, -4])), "msg": draw(st.sampled_from(["Success: x", "", "Warning (max evals): é \"q\""])),
            "xen": draw(st.integers(0, 10 ** 6)), "jen": jen, "diag": diag,
            "replace_nan": draw(st.sampled_from([True, True, False]))}


def arr_equal(a, b):
    if a is None or b is None:
        return a is None and b is None
    a = np.asarray(a)
    b = np.asarray(b)
    if a.shape != b.shape:
        return False
    af = a.astype(float)
    bf = b.astype(float)
    nan = np.isnan(af)
    if not np.array_equal(nan, np.isnan(bf)):
        return False
    return bool(np.array_equal(af[~nan], bf[~nan]) and np.array_equal(np.signbit(af[~nan]), np.signbit(bf[~nan])))


def cell_equal(a, b):
    def isnull(v):
        return v is None or (isinstance(v, float) and math.isnan(v)) or (isinstance(v, (np.floating,)) and np.isnan(v))
    if isnull(a) or isnull(b):
        return isnull(a) and isnull(b)
    if isinstance(a, (list, tuple, np.ndarray)) or isinstance(b, (list, tuple, np.ndarray)):
        return arr_equal(np.asarray(a, dtype=float), np.asarray(b, dtype=float))
    return a == b


def has_inf(s):
    vals = [np.asarray(v, dtype=float).ravel() for v in (s.x, s.resid, s.jacobian) if v is not None]
    vals.append(np.array([float(s.obj)]))
    if s.diagnostic_info is not None:
        for col in s.diagnostic_info.columns:
            for v in s.diagnostic_info[col].values:
                if isinstance(v, (float, np.floating)) and math.isinf(v):
                    return True
    return any(np.any(np.isinf(v)) for v in vals)


def check_roundtrip(res, s, replace_nan):
    try:
        d = s.to_dict(replace_nan=replace_nan)
    except Exception as e:
        res.fail("C20.to_dict", "to_dict raised %s: %s" % (type(e).__name__, e))
        return
    strict = replace_nan and not has_inf(s)
    try:
        js = json.dumps(d, allow_nan=not strict)
    except Exception as e:
        res.fail("C20.json", "json.dumps(to_dict(replace_nan=%s)%s) raised %s: %s" % (replace_nan, ", strict" if strict else "", type(e).__name__, str(e)[:100]))
        return
    try:
        s2 = dfols.OptimResults.from_dict(json.loads(js))
    except Exception as e:
        res.fail("C20.from_dict", "from_dict raised %s: %s" % (type(e).__name__, str(e)[:100]))
        return
    for name in ("x", "resid", "jacobian"):
        if not arr_equal(getattr(s, name), getattr(s2, name)):
            res.fail("C20.fields", "%s not reproduced: %r -> %r" % (name, getattr(s, name), getattr(s2, name)))
        v2 = getattr(s2, name)
        if v2 is not None and np.asarray(v2).dtype != float:
            res.fail("C20.fields", "%s reloaded with dtype %s" % (name, np.asarray(v2).dtype))
    if not cell_equal(float(s.obj), s2.obj if s2.obj is None else float(s2.obj)) or s2.obj is None:
        res.fail("C20.fields", "obj not reproduced: %r -> %r" % (s.obj, s2.obj))
    for name in ("nf", "nx", "nruns", "flag", "msg", "xmin_eval_num"):
        if getattr(s, name) != getattr(s2, name):
            res.fail("C20.fields", "%s not reproduced: %r -> %r" % (name, getattr(s, name), getattr(s2, name)))
    a, b = s.jacmin_eval_nums, s2.jacmin_eval_nums
    if (a is None) != (b is None) or (a is not None and (not np.array_equal(np.asarray(a), np.asarray(b))
                                                           or not np.issubdtype(np.asarray(b).dtype, np.integer))):
        res.fail("C20.fields", "jacmin_eval_nums not reproduced: %r -> %r" % (a, b))
    da, db = s.diagnostic_info, s2.diagnostic_info
    if (da is None) != (db is None):
        res.fail("C20.table", "diagnostic table %s after reload" % ("appeared" if da is None else "vanished"))
    elif da is not None:
        if list(da.columns) != list(db.columns):
            res.fail("C20.table", "columns differ: %r -> %r" % (list(da.columns), list(db.columns)))
        elif [str(i) for i in da.index] != [str(i) for i in db.index]:
            res.fail("C20.table", "row labels/order differ: %r -> %r" % (list(da.index)[:5], list(db.index)[:5]))
        else:
            for col in da.columns:
                va, vb = list(da[col].values), list(db[col].values)
                bad = [i for i in range(len(va)) if not cell_equal(va[i], vb[i])]
                if bad:
                    res.fail("C20.table", "column %s row %d: %r -> %r" % (col, bad[0], va[bad[0]], vb[bad[0]]))
                    break
    try:
        t1, t2 = str(s), str(s2)
        if t1 != t2:
            res.fail("C20.str", "str() differs after reload")
    except Exception as e:
        res.fail("C20.str", "str() raised %s: %s" % (type(e).__name__, str(e)[:100]))


def run(case):
    res = CaseResult()
    import pandas as pd
    if case["kind"] == "run":
        o = sc.run_solve(case["scen"])
        s = o.soln
        if s is None:
            res.count("no-result")
            res.classes.append("route:" + cl.route(o))
            return res
        if s.flag == s.EXIT_INPUT_ERROR:
            res.count("input-error")
            return res
        res.classes.append("route:" + cl.route(o))
    else:
        s = dfols.OptimResults(np.array(case["x"], dtype=float), np.array(case["resid"], dtype=float), case["obj"],
                               None if case["jac"] is None else np.array(case["jac"], dtype=float), case["nf"], case["nx"],
                               case["nruns"], case["flag"], case["msg"], case["xen"],
                               None if case["jen"] is None else np.array(case["jen"], dtype=int))
        if case["diag"] is not None:
            s.diagnostic_info = pd.DataFrame(case["diag"])
        res.classes.append("synthetic")
    check_roundtrip(res, s, case["replace_nan"])
    vals = [np.asarray(v, dtype=float).ravel() for v in (s.x, s.resid, s.jacobian) if v is not None] + [np.array([float(s.obj)])]
    has_nan = any(np.any(np.isnan(v)) for v in vals)
    big = len(s.resid) >= 100 or (s.jacobian is not None and np.size(s.jacobian) >= 200) or \
        (s.jacmin_eval_nums is not None and len(s.jacmin_eval_nums) >= 100)
    for flag, name in ((has_nan, "nan-entry"), (s.jacobian is None, "no-jacobian"), (s.diagnostic_info is not None, "table"),
                       (big, "beyond-print-threshold"), (not case["replace_nan"], "replace_nan=False")):
        if flag:
            res.classes.append(name)
    res.nontrivial = bool(has_nan or s.jacobian is None or s.diagnostic_info is not None or big)
    if case["kind"] == "run":
        res.sample = {"kind": "run", "fam": case["scen"]["fam"], "n": case["scen"]["n"], "maxfun": case["scen"]["maxfun"],
                      "fault": case["scen"].get("fault"), "tags": case["scen"]["tags"], "flag": int(s.flag), "msg": s.msg}
    return res


def known_save_xk(case, clause, detail):
    up = (case.get("scen") or {}).get("up") or {}
    return bool(up.get("logging.save_xk") or up.get("logging.save_rk")) and "not JSON serializable" in detail


PROFILES = {"results": Profile("results", cases, run, quick=5000, thorough=120000, timeout=120)}
KNOWN = {"save-xk-rk": known_save_xk}
