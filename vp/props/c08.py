"""C08 - bad objective values at any evaluation are survived gracefully (fault enumeration)."""
import json, math
import numpy as np
from hypothesis import strategies as st

from .. import core
from ..core import CaseResult, Profile
from .. import scenario as sc, clauses as cl

core.import_dfols()

PROP = "C08"
LEVEL = "fault_enumeration"
KINDS = ["nan", "inf", "-inf", "big", "raise", "raise-linalg", "raise-value", "raise-overflow"]
RULE = ("Fault enumeration. A committed catalogue of 15 scenarios (plain, plain with solve's progress table switched on, bounds, scaled, one and two projections, "
        "regression npt=2n+1, growing, soft restart, hard restart with and without old r_k, averaging x2, regulariser, growing + soft restart); "
        "for each a fault-free reference run gives nf and then EVERY evaluation index k=1..nf x EVERY fault kind "
        "{NaN, +inf, -inf, 1e200, raised exception of a user-defined class, LinAlgError, ValueError, OverflowError (the classes dfols' own handlers catch)} is executed (all components faulty, plus 'every evaluation >= k' for k <= 3; thorough adds one-component variants "
        "and 'every evaluation >= k' for every k) - exhaustive inside the catalogue. In addition Hypothesis generates scenarios "
        "over the C02/C03 space (plus throw_error_on_nans) with a drawn (k, kind, component, sticky) fault. "
        "Non-trivial = the faulty evaluation is not the first evaluation of x0 (roles x0-resample/init/main/after-restart "
        "are in the class histogram). Distinct = distinct (scenario, k, kind, component, sticky) tuples.")
ASSUMPTIONS = ["faults are injected by the recording wrapper at the k-th call; the reference run is deterministic "
               "(objective noise is keyed by call index, np.random is seeded from the case)",
               "termination is decided by the deterministic livelock cap (20000 iterations without an evaluation)",
               "'x was evaluated' = soln.x equals a recorded argument to the C03 rounding tolerance",
               "-inf/+inf/1e200 squares overflow to inf: 'finite' is judged on soln.obj as returned"]


def mk(n, fam, **kw):
    c = {"n": n, "fam": fam, "m": n + 1, "A": [[1.0 if i == j else 0.25 for i in range(n)] for j in range(n + 1)],
         "b": [0.5 + 0.1 * j for j in range(n + 1)], "gamma": 0.5, "omega": 3.0, "amp": 0.3, "prf_seed": 3, "x0": [0.3] * n,
         "lower": None, "upper": None, "scaling": False, "npt": n + 1, "rhobeg": 0.1, "rhoend": 1e-5, "maxfun": 40, "up": {},
         "np_seed": 1, "tags": []}
    c.update(kw)
    return c


CATALOGUE = [
    ("plain", mk(2, "sinlin")),
    ("bounds", mk(2, "sinlin", lower=[0.1, -1.0], upper=[0.9, 0.35], x0=[0.1, 0.3])),
    ("scaled", mk(2, "sinlin", lower=[0.0, 0.0], upper=[1.0, 0.7], scaling=True, rhobeg=None)),
    ("one-projection", mk(2, "lin", proj=[{"kind": "ball", "c": [0.0, 0.0], "r": 0.6}], maxfun=20)),
    ("two-projections", mk(2, "lin", proj=[{"kind": "ball", "c": [0.0, 0.0], "r": 0.6}, {"kind": "half", "a": [1.0, 1.0], "beta": 0.7}], maxfun=20)),
    ("regression", mk(2, "hashed", npt=5, up={"regression.num_extra_steps": 1})),
    ("growing", mk(3, "sinlin", up={"growing.ndirs_initial": 1})),
    ("soft-restart", mk(2, "hashed", up={"restarts.use_restarts": True}, noise_flag=True, rhoend=1e-2)),
    ("hard-restart-old-rk", mk(2, "hashed", up={"restarts.use_restarts": True, "restarts.use_soft_restarts": False}, rhoend=1e-2)),
    ("hard-restart-new-rk", mk(2, "hashed", up={"restarts.use_restarts": True, "restarts.use_soft_restarts": False,
                                                "restarts.hard.use_old_rk": False}, rhoend=1e-2)),
    ("averaging-const", mk(2, "hashed", nsamples={"const": 2}, maxfun=36)),
    ("averaging-table", mk(2, "sinlin", nsamples={"table": [[1, 2, 3], [2, 1, 1]]}, noise={"seed": 5, "mult": 1e-2, "add": 1e-3}, maxfun=36)),
    ("regulariser", mk(2, "lin", reg={"kind": "l1", "lam": 0.1, "conv": "closure"}, maxfun=12, up={"func_tol.max_iters": 25})),
    ("print-progress", mk(2, "sinlin", print_progress=True, maxfun=25)),
    ("growing-soft-restart", mk(3, "hashed", up={"growing.ndirs_initial": 1, "restarts.use_restarts": True}, noise_flag=True, rhoend=1e-2, maxfun=30)),
]

GEN_PROF = sc.make_prof(fams=["lin", "sinlin", "hashed", "script", "rosen"], nmax=3, mmax=4,
                        maxfuns=[3, "npt", "npt+1", 10, 20, 30, 45], diag=0.1, reg=0.03, zero_resid=0.05, place_full=False, print_progress=0.12)


def reference_nf(scen):
    s = dict(scen)
    s.pop("fault", None)
    o = sc.run_solve(s)
    return len(o.calls), o


_REF = {}


def enumerate_cases(tier):
    out = []
    for name, scen in CATALOGUE:
        nf, _ = reference_nf(scen)
        for k in range(1, nf + 1):
            for kind in KINDS:
                out.append({"scen": scen, "name": name, "k": k, "kind": kind, "comp": "all", "sticky": False, "nf_ref": nf})
                if tier == "thorough" and not kind.startswith("raise"):
                    out.append({"scen": scen, "name": name, "k": k, "kind": kind, "comp": 0, "sticky": False, "nf_ref": nf})
                if not kind.startswith("raise") and (tier == "thorough" or k <= 3):
                    # 'at all of them': every evaluation from k on is bad (quick tier: from the very start only)
                    out.append({"scen": scen, "name": name, "k": k, "kind": kind, "comp": "all", "sticky": True, "nf_ref": nf})
    return out


@st.composite
def cases(draw):
    scen = draw(sc.scenarios(GEN_PROF))
    if draw(st.integers(0, 9)) == 0:
        scen["up"]["interpolation.throw_error_on_nans"] = True
    if draw(st.integers(0, 9)) == 0:
        scen["up"]["general.check_objfun_for_overflow"] = False
    return {"scen": scen, "name": "generated", "k": draw(st.integers(1, 60)), "kind": draw(st.sampled_from(KINDS)),
            "comp": draw(st.sampled_from(["all", "all", 0, 1])), "sticky": draw(st.sampled_from([False, False, True]))}


def run(case):
    res = CaseResult()
    scen = dict(case["scen"])
    nf_ref = case.get("nf_ref")
    if nf_ref is None:
        nf_ref, oref = reference_nf(scen)
        if oref.exc is not None or oref.livelock or nf_ref == 0:
            res.count("reference-run-unusable")
            return res
    k = 1 + (case["k"] - 1) % nf_ref
    scen["fault"] = {"k": k, "kind": case["kind"], "comp": case["comp"], "sticky": case["sticky"]}
    o = sc.run_solve(scen)
    up = scen.get("up") or {}
    kind = case["kind"]
    res.classes += ["scenario:" + case["name"], "kind:" + kind]
    # role of the faulty evaluation
    npt = scen["npt"]
    nsx0 = 1
    if o.ns_calls:
        nsx0 = max(1, o.ns_calls[0][2])
    starts = [c for c in o.main_calls[1:]] + list(o.soft_restarts)
    if k == 1:
        role = "x0"
    elif k <= nsx0:
        role = "x0-resample"
    elif any(k > s for s in starts):
        role = "after-restart"
    elif k <= npt * nsx0:
        role = "init"
    else:
        role = "main"
    res.classes.append("role:" + role)
    res.nontrivial = role != "x0" and len(o.calls) >= k
    res.sample = {"scenario": case["name"], "k": k, "kind": kind, "comp": case["comp"], "sticky": case["sticky"],
                  "tags": scen.get("tags"), "fam": scen["fam"]}
    reached = len(o.calls) >= k
    if not reached:
        res.count("fault-not-reached")
    if kind.startswith("raise"):
        if reached:
            if o.exc is None or o.exc is not o.raised_inside:
                res.fail("C08.propagates", "exception raised inside objfun at evaluation %d did not reach the caller unchanged (got %r)"
                         % (k, o.exc if o.exc is not None else getattr(o.soln, "msg", None)))
            if len(o.calls) != k:
                res.fail("C08.propagates", "%d further evaluations were requested after the exception" % (len(o.calls) - k))
            cl.c01(scen, o, res, prefix="C08")
            return res
    if o.livelock:
        res.fail("C08.returns", "solve does not terminate after the fault at evaluation %d" % k)
        return res
    if o.exc is not None:
        allowed = up.get("interpolation.throw_error_on_nans") and isinstance(o.exc, np.linalg.LinAlgError)
        if not allowed:
            res.fail("C08.returns", "solve raised %s: %s" % (type(o.exc).__name__, str(o.exc)[:120]))
        else:
            res.classes.append("raise-on-nan")
        cl.c01(scen, o, res, prefix="C08")
        return res
    s = o.soln
    if s.flag == s.EXIT_INPUT_ERROR:
        res.count("input-error")
        return res
    res.classes.append("route:" + cl.route(o))
    # bounds and budget guarantees
    cl.c01(scen, o, res, prefix="C08")
    maxfun = scen["maxfun"] if scen.get("maxfun") is not None else min(100 * (scen["n"] + 1), 1000)
    if len(o.calls) > maxfun:
        res.fail("C08.budget", "%d calls with maxfun=%d" % (len(o.calls), maxfun))
    if s.nf != len(o.calls):
        res.fail("C08.budget", "soln.nf=%r but %d calls were made" % (s.nf, len(o.calls)))
    # x finite and evaluated
    x = np.asarray(s.x, dtype=float)
    if not np.all(np.isfinite(x)):
        res.fail("C08.x_finite_evaluated", "soln.x=%r" % (x,))
    else:
        mags = [1.0] + [float(np.max(np.abs(c[0]))) for c in o.calls]
        tol = (8 + 2 * o.nshifts) * sc.EPS * max(mags)
        if scen.get("scaling"):
            lo, upb = sc.user_bounds(scen)
            tol *= 1.0 + float(np.max(upb - lo))
        if not any(np.max(np.abs(c[0] - x)) <= tol for c in o.calls):
            res.fail("C08.x_finite_evaluated", "soln.x=%r is none of the %d evaluated points" % (x.tolist(), len(o.calls)))
    # a bad value never displaces a finite best point found earlier
    obj = float(s.obj)
    if reached:
        before = []
        groups = cl.point_groups(o)
        if scen.get("nsamples") and groups is not None:
            # with averaging the value of a point is the objective of the mean of its samples: only points whose
            # samples were all taken before the fault count as "finite evaluations before the fault"
            for p, idx in groups.items():
                if max(idx) < k - 1:
                    with np.errstate(all="ignore"):
                        before.append(sc.objective_of(scen, o.calls[idx[0]][0], np.mean(np.array([o.calls[i][1] for i in idx]), axis=0)))
        elif not scen.get("nsamples"):
            for (xc, r) in o.calls[:k - 1]:
                with np.errstate(all="ignore"):
                    before.append(sc.objective_of(scen, xc, r))
        finite_before = [v for v in before if math.isfinite(v)]
        if finite_before:
            if not math.isfinite(obj):
                res.fail("C08.no_displacement", "fault at evaluation %d (%s): objective %r returned although %d finite evaluations preceded it"
                         % (k, kind, obj, len(finite_before)))
            elif not scen.get("nsamples") and not (obj <= min(finite_before) * (1 + 4 * sc.EPS) + 1e-300):
                res.fail("C08.no_displacement", "fault at evaluation %d (%s): objective %r returned, best finite value before the fault was %r"
                         % (k, kind, obj, min(finite_before)))
    if s.flag == s.EXIT_SUCCESS and not math.isfinite(obj):
        res.fail("C08.no_false_success", "success flag with objective %r" % obj)
    return res


def coverage_extra(tier, merged):
    return {"exhaustive": True, "explanation": "catalogue part enumerated completely: every k in 1..nf x every fault kind "
            "for each of the %d catalogue scenarios; the generated part is sampled" % len(CATALOGUE)}


PROFILES = {"catalogue": Profile("catalogue", None, run, quick=0, thorough=0, timeout=120, enumerate=enumerate_cases),
            "generated": Profile("generated", cases, run, quick=1500, thorough=60000, timeout=180)}
KNOWN = {}
