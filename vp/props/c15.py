"""C15 - Dykstra's projection is feasible, near-optimal and respects its stopping rule."""
import math
import numpy as np
from hypothesis import strategies as st

from .. import core
from ..core import CaseResult, Profile
from .. import scenario as sc

core.import_dfols()
from dfols.util import dykstra  # noqa: E402

PROP = "C15"
LEVEL = "exploration"
RULE = ("Hypothesis cases: direct calls dykstra(P, x0, max_iter, tol) with n in 1..6, 1-4 sets from {ball, half-space, box, "
        "scaled simplex} built around a common point with a drawn margin, the last set a box in about half the cases, start "
        "points inside / a hair (1e-7..1e-4 relative) outside / near / far; projectors return fresh arrays or, in a third of the cases, "
        "hand a feasible argument back as the same object; tol in {1e-12, 1e-10 (default), 1e-8, 1e-6}, max_iter in {20, 100, 1000}. The routine is "
        "called with counting projector proxies (sweeps and the stopping quantity of every sweep reconstructed from them; the "
        "routine may stop early only when that quantity is below tol, and must stop at the first sweep where it is). Reference "
        "projection from the harness's own implementation of Dykstra's method run until the iterates stop moving. "
        "Non-trivial = the start point is outside the intersection and >= 2 sets are active at the reference projection. "
        "Distinct = SHA-1 of the case JSON.")
ASSUMPTIONS = ["reference = harness implementation of the textbook recursion (never dfols' own routine), up to 20000 sweeps; cases "
               "where it has not converged (moves > 1e-13) are 'slow geometry' and judged for feasibility only",
               "the 1e-3 near-optimality figure is asserted only when it is implied by the stopping rule: with q the reference "
               "run's measured contraction factor, sqrt(tol)*q/(1-q) <= 1e-4; otherwise the case is counted, not judged",
               "stop-by-rule is detected from the proxies alone: each proxy sees the argument and the result of its projector and "
               "replicates the routine's increment arithmetic, so the stopping quantity of every sweep is reproduced bit for bit"]


@st.composite
def cases(draw):
    n = draw(st.integers(1, 6))
    mag = 10.0 ** draw(st.integers(-1, 1))
    use_simplex = n >= 2 and draw(st.integers(0, 5)) == 0
    if use_simplex:
        w = np.array([1.0 + abs(draw(sc.g8)) for _ in range(n)])
        ssum = mag * n
        z = (w / w.sum() * ssum).tolist()
    else:
        z = [sc.dec(draw(sc.g10) * mag) for _ in range(n)]
    nsets = draw(st.integers(1, 4))
    sets = draw(sc.draw_sets(n, z, mag, nmin=nsets, nmax=nsets))
    if use_simplex:
        sets[draw(st.integers(0, len(sets) - 1))] = {"kind": "simplex", "s": float(np.sum(z))}
    if draw(st.booleans()):
        lo = [float(z[i] - mag * (0.05 + abs(draw(sc.g8)))) for i in range(n)]
        up = [float(z[i] + mag * (0.05 + abs(draw(sc.g8)))) for i in range(n)]
        box = {"kind": "box", "l": lo, "u": up}
        if len(sets) >= 4:
            sets[-1] = box
        else:
            sets.append(box)
    start = draw(st.sampled_from(["inside", "near", "far", "far", "veryfar", "hair", "hair"]))
    dirn = np.array([draw(sc.g8) for _ in range(n)])
    if not np.any(dirn):
        dirn[0] = 1.0
    dirn = dirn / np.linalg.norm(dirn)
    if start == "hair":
        # a hair outside the intersection: walk from z along dirn to its boundary (bisection on the harness's distances),
        # then step out by 1e-7 .. 1e-4 relative
        lo_t, hi_t = 0.0, 1000.0 * mag
        zz = np.array(z)
        for _ in range(90):
            mid = 0.5 * (lo_t + hi_t)
            if max(sc.set_distance(sp, zz + mid * dirn) for sp in sets) > 0:
                hi_t = mid
            else:
                lo_t = mid
        xb = zz + lo_t * dirn
        x0 = (xb + dirn * draw(st.sampled_from([1e-7, 1e-6, 1e-5, 1e-4])) * max(1.0, float(np.max(np.abs(xb))))).tolist()
    else:
        step = {"inside": 0.0, "near": 0.5 * mag, "far": 5.0 * mag, "veryfar": 100.0 * mag}[start]
        x0 = (np.array(z) + step * dirn).tolist()
    return {"n": n, "sets": sets, "x0": x0, "start": start, "alias": draw(st.sampled_from([False, False, True])), "tol": draw(st.sampled_from([1e-12, 1e-10, 1e-10, 1e-8, 1e-6])),
            "max_iter": draw(st.sampled_from([20, 100, 100, 1000]))}


def reference_projection(P, x0, max_sweeps=20000):
    x = x0.copy()
    p = len(P)
    y = np.zeros((p, len(x0)))
    moves = []
    for k in range(max_sweeps):
        xs = x.copy()
        dy = 0.0
        for i in range(p):
            w = x - y[i]
            xn = P[i](w)
            ynew = xn - w
            dy += float(np.sum((ynew - y[i]) ** 2))
            y[i] = ynew
            x = xn
        # the end-of-sweep iterate can stall for a sweep while the increments still change: measure both
        mv = max(float(np.linalg.norm(x - xs)), math.sqrt(dy))
        moves.append(mv)
        if mv <= 1e-15 * (1 + np.linalg.norm(x)):
            return x, True, moves
    return x, moves[-1] <= 1e-13 * (1 + np.linalg.norm(x)), moves


def contraction(moves):
    tail = [m for m in moves if m > 1e-14]
    if len(tail) < 3:
        return 0.0
    ratios = [tail[i + 1] / tail[i] for i in range(len(tail) - 1) if tail[i] > 0]
    return max(ratios[-min(len(ratios), 10):])


def run(case):
    res = CaseResult()
    n = case["n"]
    specs = case["sets"]
    P = [sc.set_projector(sp, alias=bool(case.get("alias"))) for sp in specs]
    Pref = [sc.set_projector(sp) for sp in specs]
    x0 = np.array(case["x0"], dtype=float)
    tol, max_iter = float(case["tol"]), int(case["max_iter"])
    p = len(P)
    st_ = {"cnt": 0, "cI": 0.0, "sweeps": [], "calls": [0] * p, "y": [np.zeros(n) for _ in range(p)]}

    def wrap(i, Pi):
        def w(v):
            out = Pi(v)
            st_["calls"][i] += 1
            if i == 0:
                if st_["cnt"] > 0:
                    st_["sweeps"].append(st_["cI"])
                st_["cI"] = 0.0
                st_["cnt"] += 1
            ynew = out - v          # the routine's own increment arithmetic (see scenario.DykstraLog)
            st_["cI"] += float(np.linalg.norm(st_["y"][i] - ynew) ** 2)
            st_["y"][i] = np.array(ynew, dtype=float, copy=True)
            return out
        return w
    x0_in = x0.copy()
    try:
        x = np.asarray(dykstra([wrap(i, Pi) for i, Pi in enumerate(P)], x0_in, max_iter=max_iter, tol=tol), dtype=float)
    except Exception as e:
        res.fail("C15.returns", "%s: %s" % (type(e).__name__, e))
        return res
    st_["sweeps"].append(st_["cI"])
    by_rule = st_["cnt"] > 0 and st_["sweeps"][-1] < tol
    # the routine may stop before max_iter sweeps only because its rule was met, and must stop as soon as it is met
    if 0 < st_["cnt"] < max_iter and not st_["sweeps"][-1] < tol:
        res.fail("C15.stopping_rule", "stopped after %d of %d sweeps although the stopping quantity %r is not below tol=%r"
                 % (st_["cnt"], max_iter, st_["sweeps"][-1], tol))
    early = [i for i, v in enumerate(st_["sweeps"][:-1]) if v < tol]
    if early:
        res.fail("C15.stopping_rule", "the stopping quantity was already below tol=%r after sweep %d (%r) but %d sweeps were performed"
                 % (tol, early[0] + 1, st_["sweeps"][early[0]], st_["cnt"]))
    res.classes += ["start:" + case["start"], "stopped:" + ("rule" if by_rule else "cap")] + (["aliasing-projectors"] if case.get("alias") else [])
    if not np.array_equal(x0_in, x0):
        res.fail("C15.returns", "the caller's start point was modified")
    if st_["calls"][0] > max_iter or any(c > max_iter for c in st_["calls"]):
        res.fail("C15.sweeps", "%d sweeps performed, max_iter=%d" % (st_["calls"][0], max_iter))
    dists = [sc.set_distance(sp, x) for sp in specs]
    inside0 = all(sc.set_distance(sp, x0) == 0.0 for sp in specs)
    if specs[-1]["kind"] == "box":
        lo, up = np.array(specs[-1]["l"]), np.array(specs[-1]["u"])
        if np.any(x < lo) or np.any(x > up):
            res.fail("C15.last_box", "the last set is a box but the result leaves it by %r" % max(np.max(lo - x), np.max(x - up)))
        res.classes.append("last-set-box")
    if inside0:
        res.check("C15.fixed_point", float(np.linalg.norm(x - x0)), 4 * sc.EPS * (1 + float(np.linalg.norm(x0))), "||x - x0|| for x0 in all sets")
    if by_rule:
        bound = math.sqrt(p * tol)
        res.margin("C15.feasible", max(dists) / bound)
        if max(dists) > bound:
            res.fail("C15.feasible", "stopped by the rule but %r away from set %d; bound sqrt(p*tol)=%r" % (max(dists), int(np.argmax(dists)), bound))
        xref, conv, moves = reference_projection(Pref, x0)
        q = contraction(moves)
        implied = conv and q < 1 and math.sqrt(tol) * q / (1 - q) <= 1e-4
        if implied:
            err = float(np.linalg.norm(x - xref))
            res.margin("C15.near_optimal", err / 1e-3)
            if err > 1e-3:
                res.fail("C15.near_optimal", "stopped by the rule but %r from the true projection (contraction factor %.3g)" % (err, q))
            res.classes.append("near-optimality-judged")
        else:
            res.classes.append("slow-geometry-not-judged")
        nact = 0
        back = x0 - xref
        if conv and np.linalg.norm(back) > 0:
            # a set is active at the projection if a small move back towards the start point leaves it
            probe = xref + 1e-7 * (1 + float(np.linalg.norm(xref))) * back / np.linalg.norm(back)
            nact = sum(1 for sp in specs if sc.set_distance(sp, probe) > 0)
        if nact >= 2:
            res.classes.append("two-sets-active")
        res.nontrivial = bool(not inside0 and nact >= 2)
    else:
        res.nontrivial = False
    return res


PROFILES = {"dykstra": Profile("dykstra", cases, run, quick=20000, thorough=600000, timeout=120, fuzz=(1000, 40000))}
KNOWN = {}
