"""C16 - interpolation models reproduce their data and survive base shifts (model-based / stateful check)."""
import math
import numpy as np
from hypothesis import strategies as st

from .. import core
from ..core import CaseResult, Profile
from .. import scenario as sc

core.import_dfols()
from dfols.model import Model  # noqa: E402

PROP = "C16"
LEVEL = "exploration"
EPS = float(np.finfo(float).eps)
KTOL = 100.0
RULE = ("Stateful generation: operation sequences (<= 30 steps) over a real Model with n<=6, m<=6, target point count n+1..2n+1, "
        "base point magnitude up to 1e6, point spreads over 4 decades (down to 1e-4 relative to the base), preconditioning on/"
        "off, no bounds or a box around the base point (base on a bound included; fed points are clipped into the box first). Rules: add a point (growing from 2 points), replace point k, shift the base to xopt or by a drawn vector; after "
        "every rule the model is re-fitted and judged. Data come from a hidden SINLIN function or from drawn residuals. "
        "Candidate points that would make the harness's own scaled design matrix worse conditioned than 1e6 are skipped "
        "(counted), so the point set stays affinely independent. Non-trivial = the sequence has >= 2 base shifts, or a shift "
        "followed by a replacement, and >= 4 executed steps. Distinct = SHA-1 of the sequence JSON.")
ASSUMPTIONS = ["tolerance 100*eps*kappa*scale with kappa the condition number of the harness's own scaled design matrix "
               "[1, (Y-xopt)/max distance]; shift-invariance clauses carry the extra factor (1+|xbase|/spread)",
               "the under-determined (growing) case is checked on the plain minimum-norm path (make_full_rank=False)",
               "Lagrange identities are evaluated against the current points, so a stale cached factorisation shows"]


@st.composite
def cases(draw):
    n = draw(st.integers(1, 6))
    m = draw(st.integers(1, 6))
    npt = draw(st.integers(n + 1, 2 * n + 1))
    bmag = 10.0 ** draw(st.integers(0, 6))
    base = [draw(sc.g10) * bmag for _ in range(n)]
    rel = draw(st.booleans())
    spread = (10.0 ** draw(st.integers(-4, 0)) * max(1e-6 * bmag, 1e-3)) if rel else 10.0 ** draw(st.integers(-2, 1))
    data = draw(st.sampled_from(["sinlin", "sinlin", "lin", "drawn"]))
    ops = []
    for _ in range(draw(st.integers(1, 30))):
        kind = draw(st.sampled_from(["grow", "grow", "replace", "replace", "replace", "shift", "shiftv", "sample"]))
        op = {"op": kind}
        if kind == "sample":
            # one more (noisy) sample at a stored point: the stored residual becomes the running mean, sample counts become unequal,
            # the incumbent may move - the next fit must still be the plain interpolant / least-squares fit of the stored means
            op["k"] = draw(st.integers(0, 12))
            op["dr"] = [draw(sc.g8) / 4.0 for _ in range(m)]
        if kind in ("grow", "replace"):
            op["s"] = [draw(sc.g8) / 4.0 for _ in range(n)]
            op["from_xopt"] = draw(st.booleans())
            op["k"] = draw(st.integers(0, 12))
            op["scale"] = draw(st.sampled_from([1.0, 1.0, 0.1, 0.01, 3.0]))
            if data == "drawn":
                op["r"] = [draw(sc.g8) for _ in range(m)]
        elif kind == "shiftv":
            op["v"] = [draw(sc.g8) / 4.0 for _ in range(n)]
        ops.append(op)
    # bounds: none, or a box around the base point with sides 0 (base on the bound), 0.5, 3 or 30 spreads away (or absent);
    # candidate points are clipped into the box before they are fed, so only in-bounds points are ever stored
    box = None
    if draw(st.integers(0, 2)) == 0:
        box = {"lo": [draw(st.sampled_from([0.0, 0.5, 3.0, 30.0, None])) for _ in range(n)],
               "up": [draw(st.sampled_from([0.5, 3.0, 30.0, None])) for _ in range(n)]}
    return {"n": n, "m": m, "npt": npt, "base": base, "spread": spread, "data": data, "precondition": draw(st.sampled_from([True, True, False])),
            "box": box,
            "A": [[draw(sc.g8) for _ in range(n)] for _ in range(m)], "b": [draw(sc.g8) for _ in range(m)],
            "r0": [draw(sc.g8) for _ in range(m)], "ops": ops}


def design(Y, xo):
    dmax = max(math.sqrt(float(np.max(np.sum((Y - xo) ** 2, axis=1)))), 1e-300)
    return np.hstack([np.ones((len(Y), 1)), (Y - xo) / dmax]), dmax


def run(case):
    with np.errstate(all="ignore"):
        return _run(case)


def _run(case):
    res = CaseResult()
    n, m, npt = case["n"], case["m"], case["npt"]
    base = np.array(case["base"], dtype=float)
    spread = float(case["spread"])
    A = np.array(case["A"], dtype=float)
    b = np.array(case["b"], dtype=float)

    def f(x, op=None):
        if case["data"] == "drawn":
            return np.array(op["r"] if op is not None else case["r0"], dtype=float)
        z = (x - base) / spread
        r = A.dot(z) - b
        if case["data"] == "sinlin":
            r = r + 0.5 * np.sin(np.sum(z) + np.arange(m))
        return r

    xl, xu = -1e20 * np.ones(n), 1e20 * np.ones(n)
    if case.get("box"):
        for i in range(n):
            if case["box"]["lo"][i] is not None:
                xl[i] = base[i] - case["box"]["lo"][i] * spread
            if case["box"]["up"][i] is not None:
                xu[i] = base[i] + case["box"]["up"][i] * spread
    mdl = Model(npt, base.copy(), f(base), xl.copy(), xu.copy(), [], 1, precondition=case["precondition"], do_logging=False)
    nev = 1
    flags = {"shifts": 0, "shift_then_replace": False, "steps": 0, "skipped": 0, "last_shift": False}

    def points():
        return np.array([mdl.xbase + mdl.points[k, :] for k in range(mdl.npt())])

    def check(step, tag):
        k_ = mdl.npt()
        if k_ < 2:
            return True
        try:
            ok = mdl.interpolate_mini_models_svd()[0]
        except Exception as e:
            res.fail("C16.fit_returns", "step %d %s: re-fit raised %s: %s" % (step, tag, type(e).__name__, e))
            return False
        if not ok:
            res.fail("C16.fit_returns", "step %d %s: re-fit reported failure on an affinely independent set" % (step, tag))
            return False
        Y = np.array([mdl.xpt(k) for k in range(k_)])
        R = mdl.fval_v[:k_]
        xo = mdl.xopt()
        W, dmax = design(Y, xo)
        kap = float(np.linalg.cond(W))
        pred = np.array([mdl.model_value(mdl.xpt(k), d_based_at_xopt=False, with_const_term=True) for k in range(k_)])
        scale = float(np.max(np.abs(R))) + float(np.linalg.norm(mdl.model_jac, 2)) * dmax + 1e-300
        E = R - pred
        if k_ <= n + 1:
            clause = "C16.interpolates" if k_ == n + 1 else "C16.interpolates_growing"
            r = float(np.max(np.abs(E))) / (EPS * kap * scale)
        else:
            clause = "C16.regression_orthogonal"
            r = float(np.max(np.abs(W.T.dot(E)))) / (EPS * kap * scale * math.sqrt(k_))
        # under-determined fits: minimum-norm solve, one more order of slack; regression: normal-equation residual, x3
        ktol = KTOL * (10.0 if k_ < n + 1 else 3.0 if k_ > n + 1 else 1.0)
        # model values are formed as J*y + const with y relative to the base point: when the points sit far from the base
        # compared with their spread (possible only after a shift by something other than xopt) that sum cancels
        ktol *= 1.0 + float(np.max(np.abs(Y))) / dmax
        res.margin(clause, r / ktol)
        if not (r <= ktol):
            res.fail(clause, "step %d %s: %d points in R^%d, residual/(eps*kappa*scale)=%.3g (kappa=%.3g)" % (step, tag, k_, n, r, kap))
            return False
        try:
            cs, gs = mdl.lagrange_gradient()
        except Exception as e:
            res.fail("C16.lagrange", "step %d %s: lagrange_gradient raised %s: %s" % (step, tag, type(e).__name__, e))
            return False
        L = cs[None, :] + (Y - xo).dot(gs)
        if k_ == n + 1:
            r = float(np.max(np.abs(L - np.eye(k_)))) / (EPS * kap)
            clause = "C16.lagrange_delta"
        elif k_ > n + 1:
            r = float(np.max(np.abs(L.sum(axis=1) - 1.0))) / (EPS * kap * k_)
            clause = "C16.lagrange_sum"
        else:
            r = float(np.max(np.abs(L - np.eye(k_)))) / (EPS * kap)
            clause = "C16.lagrange_delta_growing"
        ktol = KTOL * (10.0 if k_ < n + 1 else 1.0)
        res.margin(clause, r / ktol)
        if not (r <= ktol):
            res.fail(clause, "step %d %s: Lagrange identity violated, error/(eps*kappa)=%.3g (kappa=%.3g)" % (step, tag, r, kap))
            return False
        return True

    ok = True
    for step, op in enumerate(case["ops"], 1):
        if not ok:
            break
        kind = op["op"]
        cur = mdl.npt()
        if kind == "replace" and cur < 2:
            kind = "grow"
        if kind == "grow" and cur >= mdl.num_pts:
            kind = "replace"
        if kind in ("grow", "replace"):
            s = np.array(op["s"], dtype=float) * spread * op["scale"]
            if not np.any(s):
                s[0] = spread
            cand = (mdl.xopt() if op["from_xopt"] else np.zeros(n)) + s
            # keep the fed point inside the box - in the model's own terms (its bounds relative to the current base point, which
            # carry the rounding of every earlier shift): a point clipped against the absolute bounds can land an ulp outside
            # them, is then clipped again by the model onto an existing point, and the set is singular (seed 2, a false alarm)
            cand = np.minimum(np.maximum(cand, mdl.sl), mdl.su)
            k = cur if kind == "grow" else op["k"] % cur
            Y = np.array([mdl.xpt(j) for j in range(cur)])
            if kind == "grow":
                Ynew = np.vstack([Y, cand])
            else:
                Ynew = Y.copy()
                Ynew[k] = cand
            Wn, dnew = design(Ynew, Ynew[mdl.kopt] if mdl.kopt < len(Ynew) else Ynew[0])
            sv = np.linalg.svd(Wn, compute_uv=False)
            # affinely independent *at the scale of the problem*: the scaled design matrix hides a set whose points all
            # coincide to rounding (its normalisation divides by their spread), so the spread itself is bounded below too
            if len(Ynew) >= 2 and (dnew < 1e-4 * spread or sv[min(Wn.shape) - 1] <= 0 or sv[0] / sv[min(Wn.shape) - 1] > 1e6):
                flags["skipped"] += 1
                continue
            nev += 1
            mdl.change_point(k, cand, f(mdl.xbase + cand, op), nev)
            if flags["last_shift"] and kind == "replace":
                flags["shift_then_replace"] = True
            flags["last_shift"] = False
            flags["steps"] += 1
            ok = check(step, kind)
        elif kind == "sample":
            k = op["k"] % cur
            mdl.add_new_sample(k, rvec_extra=mdl.fval_v[k, :] + np.array(op["dr"], dtype=float) * (1.0 + float(np.max(np.abs(mdl.fval_v[k, :])))))
            flags["last_shift"] = False
            flags["steps"] += 1
            flags["samples"] = flags.get("samples", 0) + 1
            ok = check(step, "sample")
        else:
            if cur < 2:
                continue
            if not mdl.interpolate_mini_models_svd()[0]:
                res.count("fit-failed-before-shift")
                continue
            probe = mdl.xbase + mdl.xopt() + np.array([[((i * 7 + j * 3) % 5 - 2) / 2.0 for j in range(n)] for i in range(6)]) * spread
            before = np.array([mdl.model_value(p - mdl.xbase, d_based_at_xopt=False, with_const_term=True) for p in probe])
            g0, H0 = mdl.build_full_model()
            sh = mdl.xopt().copy() if kind == "shift" else np.array(op["v"], dtype=float) * spread
            mdl.shift_base(sh)
            after = np.array([mdl.model_value(p - mdl.xbase, d_based_at_xopt=False, with_const_term=True) for p in probe])
            g1, H1 = mdl.build_full_model()
            amp = 1.0 + float(np.max(np.abs(mdl.xbase))) / spread
            Y = np.array([mdl.xpt(j) for j in range(cur)])
            kap = float(np.linalg.cond(design(Y, mdl.xopt())[0]))
            nJ = float(np.linalg.norm(mdl.model_jac, 2))
            rmag = float(np.max(np.abs(mdl.fval_v[:cur]))) + nJ * design(Y, mdl.xopt())[1]
            # natural magnitudes: values ~ |r|, gradient 2 J'r ~ 2|J||r|, Hessian 2 J'J ~ 2|J|^2 (a zero gradient is not a zero scale)
            for clause, a0, a1, nat in (("C16.shift_values", before, after, rmag), ("C16.shift_gradient", g0, g1, 2 * nJ * rmag),
                                        ("C16.shift_hessian", H0, H1, 2 * nJ * nJ)):
                sc_ = max(float(np.max(np.abs(a0))), nat) + 1e-300
                r = float(np.max(np.abs(a0 - a1))) / (EPS * sc_ * amp * max(kap, 1.0))
                res.margin(clause, r / KTOL)
                if not (r <= KTOL):
                    res.fail(clause, "step %d %s: changed by %.3g x eps*scale*(1+|xbase|/spread)*kappa across a base shift" % (step, kind, r))
                    ok = False
                    break
            flags["shifts"] += 1
            flags["last_shift"] = True
            flags["steps"] += 1
            if ok:
                ok = check(step, "after-" + kind)
    res.classes.append("data:" + case["data"])
    res.classes.append("precondition" if case["precondition"] else "no-precondition")
    if case.get("box"):
        res.classes.append("bounded")
    if mdl.npt() > n + 1:
        res.classes.append("regression")
    if mdl.npt() < n + 1:
        res.classes.append("ended-growing")
    if flags.get("samples"):
        res.classes.append("resampled")
    if flags["shifts"] >= 2:
        res.classes.append("two-shifts")
    if flags["shift_then_replace"]:
        res.classes.append("shift-then-replace")
    res.count("steps", flags["steps"])
    res.count("skipped-degenerate-candidates", flags["skipped"])
    res.nontrivial = bool((flags["shifts"] >= 2 or flags["shift_then_replace"]) and flags["steps"] >= 4)
    res.sample = {"n": n, "m": m, "npt": npt, "spread": spread, "base_mag": float(np.max(np.abs(base))), "data": case["data"],
                  "ops": [o["op"] for o in case["ops"]]}
    return res


PROFILES = {"history": Profile("history", cases, run, quick=3000, thorough=60000, timeout=60)}
KNOWN = {}
