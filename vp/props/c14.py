"""C14 - the initial interpolation set is feasible and well poised next to bounds; direction generators stay in bounds."""
import math
import numpy as np
from hypothesis import strategies as st

from .. import core
from ..core import CaseResult, Profile
from .. import scenario as sc, clauses as cl

core.import_dfols()
from dfols.util import random_directions_within_bounds, random_orthog_directions_within_bounds  # noqa: E402

PROP = "C14"
LEVEL = "exploration"
RULE = ("(a) 'init': solve(..., maxfun = npt) with the default coordinate initialisation on n<=6, npt in n+1..2n+1, boxes / "
        "one-sided / mixed / scaled bounds drawn as independent decimals with rhobeg = gap/(2(1+t)), and per coordinate every "
        "x0 placement class (interior, on a bound, one ulp inside/outside, 0.5%, 1%, 1.1%, 50%, 99%, 100% of rhobeg from it, "
        "far outside) on both sides; the first npt recorded evaluations are judged. (b) 'dirs': direct calls of "
        "random_directions_within_bounds / random_orthog_directions_within_bounds with all active-set patterns (lower == 0, "
        "upper == 0), delta over 4 decades, num_pts in 1..3n+1, NumPy seed drawn. Non-trivial = (a) some coordinate of x0 in an "
        "at-bound / near-threshold / outside class, (b) at least one active bound. Distinct = SHA-1 of the case JSON.")
ASSUMPTIONS = ["distances and conditioning are measured in the solver's internal coordinates (the unit box when scaling is on)",
               "'projected x0' = componentwise clip of x0 into the box (with scaling: compared to 8 ulp of the bounds' magnitude after un-scaling)",
               "distance window [0.01, 2]*rhobeg with 1e-9 relative slack; cond([1, (Y-x0)/rhobeg]) < 1e4",
               "known finding: the orthogonal generator's 'second step' rows for active coordinates have length up to 2*delta"]

INIT_PROF = sc.make_prof(fams=["lin", "sinlin"], nmax=6, mmax=4, bounds=["box", "box", "lower", "upper", "mixed", "scaled", "none"],
                         avg=False, noise=False, restarts=False, opts=False, noise_flag=False, diag=0.0, zero_resid=0.0)


@st.composite
def init_cases(draw):
    c = draw(sc.scenarios(INIT_PROF))
    n = c["n"]
    c["npt"] = draw(st.integers(n + 1, min(2 * n + 1, (n + 1) * (n + 2) // 2)))
    c["maxfun"] = c["npt"]
    c["up"] = {}
    return c


def run_init(case):
    res = CaseResult()
    o = sc.run_solve(case)
    res.classes += case["tags"]
    n, npt = case["n"], case["npt"]
    if o.exc is not None or o.soln is None:
        res.count("exceptions")
        return res
    if o.soln.flag == o.soln.EXIT_INPUT_ERROR:
        res.count("input-error")
        return res
    lo, up = sc.user_bounds(case)
    x0 = np.array(case["x0"], dtype=float)
    x0p = np.minimum(np.maximum(x0, lo), up)
    pts = np.array([c[0] for c in o.calls[:npt]])
    early = len(o.calls) < npt
    if early:
        res.classes.append("stopped-before-npt:" + cl.route(o))   # e.g. objective already small: fewer points, all judged
    first = pts[0]
    # with scaling x0 makes a round trip (x-xl)/(xu-xl) -> xl + s*(xu-xl): a few ulp of the bounds' magnitude
    tol0 = 8 * np.spacing(np.maximum(np.maximum(np.abs(x0p), np.abs(lo)), np.abs(up))) if case["scaling"] else 0.0
    if np.any(np.abs(first - x0p) > tol0):
        res.fail("C14.first_is_projected_x0", "first evaluation %r, projected x0 %r" % (first.tolist(), x0p.tolist()))
    if np.any(pts < lo) or np.any(pts > up):
        res.fail("C14.in_box", "an initial point is outside the bounds by %r" % max(np.max(lo - pts), np.max(pts - up)))
    if case["scaling"]:
        w = up - lo
        Y = (pts - lo) / w
        rb = case["rhobeg"] if case["rhobeg"] is not None else 0.1
    else:
        Y = pts
        rb = case["rhobeg"] if case["rhobeg"] is not None else 0.1 * max(float(np.max(np.abs(x0))), 1.0)
    D = Y[1:] - Y[0]
    dist = np.linalg.norm(D, axis=1) if len(D) else np.array([])
    # points k = 2n+1.. are combinations of two coordinate steps: up to 2*sqrt(2)*rhobeg, only the coordinate points are bounded by 2*rhobeg
    ncoord = min(len(dist), 2 * n)
    slack = 1e-9 + (8 * sc.EPS * float(np.max(np.abs(Y))) / rb)
    if ncoord:
        res.margin("C14.distance_hi", float(np.max(dist[:ncoord])) / (2 * rb * (1 + slack)))
        if np.any(dist[:ncoord] > 2 * rb * (1 + slack)) or np.any(dist[:ncoord] < 0.01 * rb * (1 - slack)):
            k = int(np.argmax((dist[:ncoord] > 2 * rb * (1 + slack)) | (dist[:ncoord] < 0.01 * rb * (1 - slack))))
            res.fail("C14.distance", "initial point %d is %r from x0; allowed [0.01, 2]*rhobeg with rhobeg=%r" % (k + 2, dist[k], rb))
    if not early:
        W = np.hstack([np.ones((npt, 1)), (Y - Y[0]) / rb])
        rank = np.linalg.matrix_rank(D / rb, tol=1e-10)
        if rank < n:
            res.fail("C14.affinely_independent", "initial directions have rank %d < n=%d" % (rank, n))
        else:
            cond = float(np.linalg.cond(W))
            res.margin("C14.conditioning", cond / 1e4)
            if not (cond < 1e4):
                res.fail("C14.conditioning", "condition number of the scaled interpolation matrix is %r" % cond)
    res.nontrivial = any(t.startswith("x0:") for t in case["tags"])
    return res


side = st.sampled_from(["active", "active", "tiny", "small", "delta", "big", "none"])


@st.composite
def dir_cases(draw):
    n = draw(st.integers(1, 6))
    delta = 10.0 ** draw(st.integers(-2, 2)) * draw(st.sampled_from([1.0, 0.3, 2.5]))
    lo, up = [], []
    for _ in range(n):
        a, b = draw(side), draw(side)
        if a == "active" and b == "active":
            b = "delta"
        val = {"active": 0.0, "tiny": 1e-9 * delta, "small": 0.3 * delta, "delta": delta, "big": 10 * delta, "none": 1e20}
        lo.append(-val[a])
        up.append(val[b])
    return {"gen": draw(st.sampled_from(["random", "orthog", "orthog", "orthog_noneg"])), "n": n, "delta": delta, "lower": lo, "upper": up,
            "num_pts": draw(st.integers(1, 3 * n + 1)), "seed": draw(st.integers(0, 2 ** 16))}


def run_dirs(case):
    res = CaseResult()
    n, delta, k = case["n"], case["delta"], case["num_pts"]
    lo = np.array(case["lower"], dtype=float)
    up = np.array(case["upper"], dtype=float)
    np.random.seed(case["seed"])
    try:
        if case["gen"] == "random":
            D = random_directions_within_bounds(k, delta, lo.copy(), up.copy())
        else:
            D = random_orthog_directions_within_bounds(k, delta, lo.copy(), up.copy(), with_neg_dirns=(case["gen"] == "orthog"))
    except Exception as e:
        res.fail("C14.dirs_return", "%s raised %s: %s" % (case["gen"], type(e).__name__, e))
        return res
    D = np.asarray(D, dtype=float)
    res.classes.append("gen:" + case["gen"])
    if D.shape != (k, n):
        res.fail("C14.dirs_count", "asked for %d directions in R^%d, got shape %r" % (k, n, D.shape))
        return res
    if not np.all(np.isfinite(D)):
        res.fail("C14.dirs_in_bounds", "non-finite direction")
        return res
    if np.any(D < lo) or np.any(D > up):
        res.fail("C14.dirs_in_bounds", "a direction leaves the bounds by %r" % max(np.max(lo - D), np.max(D - up)))
    norms = np.linalg.norm(D, axis=1)
    active = (lo == 0) | (up == 0)
    ninact = int(n - np.sum(active))
    for i, v in enumerate(norms):
        res.margin("C14.dirs_length", v / (delta * (1 + 1e-12)) if not (case["gen"] == "orthog" and n + ninact <= i < 2 * n) else 0.0)
        if v > delta * (1 + 1e-12):
            res.fail("C14.dirs_length", "gen=%s row %d (n=%d, inactive=%d) has length %r > delta=%r [ratio %.6g]"
                     % (case["gen"], i, n, ninact, v, delta, v / delta))
            break
    if np.any(active):
        res.classes.append("active-bound")
    res.nontrivial = bool(np.any(active))
    return res


def known_second_step(case, clause, detail):
    """Rows n+ninactive .. 2n-1 of the with-negatives branch: 'second step' directions for active coordinates, length <= 2*delta."""
    if case.get("gen") != "orthog" or "row " not in detail:
        return False
    try:
        row = int(detail.split("row ")[1].split(" ")[0])
        ratio = float(detail.split("[ratio ")[1].split("]")[0])
    except Exception:
        return False
    n = case["n"]
    lo, up = np.array(case["lower"]), np.array(case["upper"])
    ninact = int(n - np.sum((lo == 0) | (up == 0)))
    return n + ninact <= row < 2 * n and ratio <= 2.0 * (1 + 1e-12)


PROFILES = {"init": Profile("init", init_cases, run_init, quick=6000, thorough=200000, timeout=60),
            "dirs": Profile("dirs", dir_cases, run_dirs, quick=30000, thorough=1000000, timeout=30)}
KNOWN = {"orthog-second-step": known_second_step}
