"""Coverage-guided campaign for one profile of one property (atheris / libFuzzer driving the profile's Hypothesis
strategy through `fuzz_one_input`, the semantic oracle inside the target).

    python -m vp.fuzz <PROP> <profile> --runs N --seed S --work DIR

Writes DIR/stats.json every 500 executions (atexit does not run under libFuzzer) and DIR/violation.json when the oracle
fails (then exits through libFuzzer's crash path). The parent (vp.runner) reads both and parses libFuzzer's `cov:` line."""
import os, sys, json, time, argparse


def main():
    ap = argparse.ArgumentParser()
    ap.add_argument("prop")
    ap.add_argument("profile")
    ap.add_argument("--runs", type=int, default=10000)
    ap.add_argument("--seed", type=int, default=1)
    ap.add_argument("--work", required=True)
    a = ap.parse_args()
    os.makedirs(os.path.join(a.work, "corpus"), exist_ok=True)
    from . import core
    from .runner import ensure_deps, load_prop, known_match
    ensure_deps()
    deps = os.path.join(core.VERIF, ".deps")
    if deps not in sys.path:
        sys.path.append(deps)
    import atheris
    if sys.path[0] != core.REPO:
        sys.path.insert(0, core.REPO)
    with atheris.instrument_imports(include=["dfols"]):      # coverage feedback from the code under test only
        import dfols  # noqa: F401
        import dfols.trust_region, dfols.util, dfols.model, dfols.controller, dfols.solver  # noqa: F401,E401
    core.import_dfols()
    mod = load_prop(a.prop)
    prof = mod.PROFILES[a.profile]
    known = [e for e in core.load_known(a.prop) if e.kind == "known"]
    from hypothesis import given, settings, HealthCheck
    stats = {"execs": 0, "valid": 0, "nontrivial": 0, "known_hits": 0, "t0": time.time(), "seed": a.seed}

    def dump():
        stats["wall_s"] = round(time.time() - stats["t0"], 1)
        with open(os.path.join(a.work, "stats.json"), "w") as f:
            json.dump(stats, f)

    @settings(database=None, deadline=None, suppress_health_check=list(HealthCheck))
    @given(prof.strategy())
    def test(case):
        stats["valid"] += 1
        res = prof.run(case)
        if res.nontrivial:
            stats["nontrivial"] += 1
        unlisted = []
        for clause, detail in res.failures:
            if known_match(mod, known, case, clause, detail):
                stats["known_hits"] += 1
            else:
                unlisted.append((clause, detail))
        if unlisted:
            with open(os.path.join(a.work, "violation.json"), "w") as f:
                json.dump({"case": case, "failures": unlisted}, f, default=str)
            dump()
            raise AssertionError(unlisted[0][0])

    fuzz_one = test.hypothesis.fuzz_one_input

    def TestOneInput(data):
        stats["execs"] += 1
        if stats["execs"] % 500 == 0:
            dump()
        fuzz_one(data)

    # seed corpus: a few pseudo-random byte strings long enough for the strategy to complete (deterministic in the seed);
    # libFuzzer's length control would otherwise spend the whole budget on inputs too short to be a case
    import hashlib
    for i in range(8):
        blob = b"".join(hashlib.sha256(b"%d-%d-%d" % (a.seed, i, j)).digest() for j in range(48))
        with open(os.path.join(a.work, "corpus", "seed%d" % i), "wb") as f:
            f.write(blob[: 256 * (1 + i % 4)])
    atheris.Setup([sys.argv[0], "-runs=%d" % a.runs, "-seed=%d" % a.seed, "-max_len=2048", "-len_control=0", "-print_final_stats=1", "-artifact_prefix=%s/" % a.work,
                   os.path.join(a.work, "corpus")], TestOneInput)
    dump()
    atheris.Fuzz()


if __name__ == "__main__":
    main()
