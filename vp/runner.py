"""CLI: ./check <PROP> [--tier quick|thorough] [--replay PATH] [--examples N] [--profile NAME] | --setup

Exit codes: 0 property held on everything explored (KNOWN-FINDING lines possible),
            1 violation not listed in known_findings.txt (VIOLATION line printed),
            2 harness / infrastructure error.
"""
import os, sys, json, time, glob, argparse, importlib, traceback, subprocess, collections

from . import core
from .core import HarnessError, CaseTimeout

WHEELS = "/opt/veriftools/wheels"


# ----------------------------------------------------------------------------------------------
def ensure_deps(verbose=False):
    """Offline, idempotent: make hypothesis (and jsonschema, optional) importable."""
    deps = os.path.join(core.VERIF, ".deps")
    need = []
    if deps not in sys.path and os.path.isdir(deps):
        sys.path.append(deps)
    import importlib.util
    for mod in ("hypothesis", "jsonschema", "atheris"):     # atheris is optional (coverage-guided campaigns only)
        try:
            if importlib.util.find_spec(mod) is None:
                need.append(mod)
        except Exception:
            need.append(mod)
    if need:
        os.makedirs(deps, exist_ok=True)
        for pkg in need:        # one at a time: a missing optional wheel must not block the others
            cmd = [sys.executable, "-m", "pip", "install", "-q", "--no-index", "--find-links", WHEELS, "--target", deps, pkg]
            r = subprocess.run(cmd, stdout=subprocess.PIPE, stderr=subprocess.STDOUT, text=True)
            if verbose or (r.returncode != 0 and pkg == "hypothesis"):
                sys.stderr.write(r.stdout)
        if deps not in sys.path:
            sys.path.append(deps)
        importlib.invalidate_caches()
    try:
        importlib.import_module("hypothesis")
    except Exception as e:
        raise HarnessError("hypothesis is not importable and could not be installed offline: %r" % (e,))


def load_prop(prop):
    try:
        return importlib.import_module("vp.props.%s" % prop.lower())
    except ModuleNotFoundError as e:
        if "vp.props" in str(e):
            raise HarnessError("no check module for property %s" % prop)
        raise


# ----------------------------------------------------------------------------------------------
def new_stats():
    return {"evaluations": 0, "nontrivial": set(), "classes": collections.Counter(), "margins": {},
            "counts": collections.Counter(), "samples": [], "sample_sigs": set(), "inconclusive": 0,
            "known_hits": collections.Counter(), "excluded_hits": collections.Counter(),
            "harness_errors": [], "nontrivial_total": 0, "slowest": []}


def known_match(mod, known, case, clause, detail):
    preds = getattr(mod, "KNOWN", {})
    for e in known:
        if e.clause == clause and e.key in preds:
            try:
                if preds[e.key](case, clause, detail):
                    return e.key
            except Exception:
                pass
    return None


def account(stats, case, res):
    stats["evaluations"] += 1
    for c in res.classes:
        stats["classes"][c] += 1
    for k, v in res.margins.items():
        if v > stats["margins"].get(k, 0.0):
            stats["margins"][k] = v
    for k, v in res.counts.items():
        stats["counts"][k] += v
    if res.nontrivial:
        stats["nontrivial_total"] += 1
        stats["nontrivial"].add(core.case_hash(case))
        sig = tuple(sorted(res.classes))[:6]
        if len(stats["samples"]) < 6 and sig not in stats["sample_sigs"]:
            stats["sample_sigs"].add(sig)
            s = res.sample if res.sample is not None else case
            js = json.dumps(s, default=str)
            if len(js) < 6000:
                stats["samples"].append(json.loads(js))


def shard_worker(job):
    """Runs in a child process: one Hypothesis campaign (plus continuation rounds after a failure)."""
    prop, pname, shard, shard_seed, n_examples, tier, shrink_budget = job
    try:
        # LAPACK/BLAS print parameter complaints straight to fd 2 when handed NaN data; results travel back by value
        try:
            if not os.environ.get("VERIF_KEEP_STDERR"):
                os.dup2(os.open(os.devnull, os.O_WRONLY), 2)
        except OSError:
            pass
        ensure_deps()
        import hypothesis
        from hypothesis import given, settings, seed, HealthCheck, Phase, Verbosity
        mod = load_prop(prop)
        prof = mod.PROFILES[pname]
        known = [e for e in core.load_known(prop) if e.kind == "known"]
        stats = new_stats()
        violations = []
        excluded = set()
        remaining = n_examples
        rnd = 0
        while remaining > 0 and len(violations) < 3:
            state = {"fail": None, "t_fail": None, "stop": False}

            def body(case):
                if state["stop"]:
                    return
                if state["t_fail"] is not None and time.time() - state["t_fail"] > shrink_budget:
                    state["stop"] = True     # stop shrinking: everything passes from now on
                    return
                t_case = time.time()
                try:
                    res = core.run_with_timeout(prof.run, case, prof.timeout)
                except CaseTimeout:
                    stats["inconclusive"] += 1
                    stats["evaluations"] += 1
                    stats["slowest"].append((prof.timeout, json.dumps(case, default=str)[:1500]))
                    return
                except hypothesis.errors.HypothesisException:
                    raise
                except Exception:
                    stats["harness_errors"].append(traceback.format_exc()[-1500:])
                    stats["evaluations"] += 1
                    return
                account(stats, case, res)
                dt = time.time() - t_case
                if dt > 5.0 and len(stats["slowest"]) < 20:
                    stats["slowest"].append((round(dt, 1), json.dumps(case, default=str)[:1500]))
                unlisted = []
                for clause, detail in res.failures:
                    k = known_match(mod, known, case, clause, detail)
                    if k:
                        stats["known_hits"][k] += 1
                    elif clause in excluded:
                        stats["excluded_hits"][clause] += 1
                    else:
                        unlisted.append((clause, detail))
                if unlisted:
                    state["fail"] = (case, unlisted)
                    if state["t_fail"] is None:
                        state["t_fail"] = time.time()
                    raise AssertionError(unlisted[0][0])

            before = stats["evaluations"]
            test = seed(core.hash32(shard_seed, rnd))(
                settings(max_examples=remaining, database=None, deadline=None, derandomize=False,
                         report_multiple_bugs=False, suppress_health_check=list(HealthCheck),
                         phases=[Phase.generate, Phase.target, Phase.shrink],
                         verbosity=Verbosity.quiet)(given(prof.strategy())(body)))
            try:
                test()
            except CaseTimeout:
                stats["inconclusive"] += 1
            except BaseException as e:
                if isinstance(e, KeyboardInterrupt):
                    raise
                if state["fail"] is None:
                    stats["harness_errors"].append("".join(traceback.format_exception(type(e), e, e.__traceback__))[-2500:])
                    break
            used = stats["evaluations"] - before
            remaining -= max(used, 1)
            rnd += 1
            if state["fail"] is None:
                break
            case, unlisted = state["fail"]
            violations.append({"case": case, "failures": unlisted, "shard": shard, "profile": pname})
            for clause, _ in unlisted:
                excluded.add(clause)
        stats["nontrivial"] = list(stats["nontrivial"])
        stats["sample_sigs"] = None
        stats["classes"] = dict(stats["classes"])
        stats["counts"] = dict(stats["counts"])
        stats["known_hits"] = dict(stats["known_hits"])
        stats["excluded_hits"] = dict(stats["excluded_hits"])
        return {"stats": stats, "violations": violations, "profile": pname, "shard": shard}
    except BaseException as e:
        return {"fatal": "".join(traceback.format_exception(type(e), e, e.__traceback__))[-3000:],
                "profile": pname, "shard": shard}


def enum_worker(job):
    """Runs in a child process: a slice of an exhaustively enumerated case list (no Hypothesis, nothing to shrink)."""
    prop, pname, shard, cases = job
    try:
        try:
            if not os.environ.get("VERIF_KEEP_STDERR"):
                os.dup2(os.open(os.devnull, os.O_WRONLY), 2)
        except OSError:
            pass
        ensure_deps()
        mod = load_prop(prop)
        prof = mod.PROFILES[pname]
        known = [e for e in core.load_known(prop) if e.kind == "known"]
        stats = new_stats()
        violations = []
        seen = set()
        for case in cases:
            try:
                res = core.run_with_timeout(prof.run, case, prof.timeout)
            except CaseTimeout:
                stats["inconclusive"] += 1
                stats["evaluations"] += 1
                continue
            except Exception:
                stats["harness_errors"].append(traceback.format_exc()[-1500:])
                stats["evaluations"] += 1
                continue
            account(stats, case, res)
            unlisted = []
            for clause, detail in res.failures:
                k = known_match(mod, known, case, clause, detail)
                if k:
                    stats["known_hits"][k] += 1
                else:
                    unlisted.append((clause, detail))
            if unlisted:
                if unlisted[0][0] in seen:
                    stats["excluded_hits"][unlisted[0][0]] += 1
                else:
                    seen.add(unlisted[0][0])
                    violations.append({"case": case, "failures": unlisted, "shard": shard, "profile": pname})
        stats["nontrivial"] = list(stats["nontrivial"])
        stats["sample_sigs"] = None
        for k in ("classes", "counts", "known_hits", "excluded_hits"):
            stats[k] = dict(stats[k])
        return {"stats": stats, "violations": violations, "profile": pname, "shard": shard}
    except BaseException as e:
        return {"fatal": "".join(traceback.format_exception(type(e), e, e.__traceback__))[-3000:],
                "profile": pname, "shard": shard}


# ----------------------------------------------------------------------------------------------
def evaluate_single(mod, pname, case, known):
    """Run one case outside Hypothesis. Returns (unlisted failures, known keys hit, result)."""
    prof = mod.PROFILES[pname]
    res = core.run_with_timeout(prof.run, case, max(prof.timeout, 300))
    unlisted, hits = [], []
    for clause, detail in res.failures:
        k = known_match(mod, known, case, clause, detail)
        if k:
            hits.append(k)
        else:
            unlisted.append((clause, detail))
    return unlisted, hits, res


def repo_commit():
    try:
        return subprocess.run(["git", "-C", core.REPO, "rev-parse", "--short", "HEAD"], stdout=subprocess.PIPE,
                              stderr=subprocess.DEVNULL, text=True).stdout.strip()
    except Exception:
        return "unknown"


def run_check(prop, tier, seed_value, examples=None, only_profile=None, workers=None):
    t0 = time.time()
    mod = load_prop(prop)
    all_known = core.load_known(prop)
    known = [e for e in all_known if e.kind == "known"]
    out_lines = []
    violations = 0
    harness_errors = []
    commit = repo_commit()

    # --- 1. regression tier: committed replays -------------------------------------------------
    reg_dir = os.path.join(core.VERIF, "replays", "regress", prop)
    reg_files = sorted(glob.glob(os.path.join(reg_dir, "*.json")))
    if os.environ.get("VERIF_SKIP_REGRESS"):      # sensitivity experiments only: judge the generated search alone
        reg_files = [f for f in reg_files if os.path.basename(f).startswith("known-")]
    pinned = {os.path.normpath(os.path.join(core.VERIF, e.replay)): e for e in known if e.replay}
    reg_run = 0
    known_reported = set()
    for path in reg_files:
        doc = core.read_replay(path)
        pname = doc.get("profile")
        if pname not in mod.PROFILES:
            harness_errors.append("replay %s names unknown profile %r" % (path, pname))
            continue
        try:
            unlisted, hits, res = evaluate_single(mod, pname, doc["case"], known)
        except CaseTimeout:
            harness_errors.append("replay %s timed out" % path)
            continue
        reg_run += 1
        rel = os.path.relpath(path, core.VERIF)
        if unlisted:
            violations += 1
            out_lines.append("VIOLATION property=%s replay=%s" % (prop, rel))
            out_lines.append("  clauses: %s" % "; ".join("%s [%s]" % f for f in unlisted[:3]))
        e = pinned.get(os.path.normpath(path))
        if e is not None and e.key in hits and e.key not in known_reported:
            known_reported.add(e.key)
            out_lines.append("KNOWN-FINDING: property=%s %s (key=%s replay=%s)" % (prop, e.text, e.key, rel))

    # --- 2. generated search ---------------------------------------------------------------------
    from concurrent.futures import ProcessPoolExecutor
    import multiprocessing
    jobs = []
    prof_budget = {}
    for pname, prof in mod.PROFILES.items():
        if (only_profile and pname != only_profile) or prof.strategy is None:
            continue
        n_total = examples if examples is not None else (prof.quick if tier == "quick" else prof.thorough)
        if n_total <= 0:
            continue
        shards = max(1, min(prof.shards, n_total))
        per = [n_total // shards + (1 if i < n_total % shards else 0) for i in range(shards)]
        prof_budget[pname] = n_total
        shrink_budget = 40 if tier == "quick" else 180
        for i in range(shards):
            jobs.append((prop, pname, i, core.hash32(seed_value, prop, pname, i), per[i], tier, shrink_budget))
    nproc = workers or min(16, os.cpu_count() or 1)
    enum_jobs = []
    enumerated = {}
    for pname, prof in mod.PROFILES.items():
        if prof.enumerate is None or (only_profile and pname != only_profile) or examples is not None and examples <= 0:
            continue
        lst = prof.enumerate(tier)
        enumerated[pname] = len(lst)
        for i in range(16):
            part = lst[i::16]
            if part:
                enum_jobs.append((prop, pname, "enum%d" % i, part))
    results = []
    if jobs or enum_jobs:
        ctx = multiprocessing.get_context("spawn")
        with ProcessPoolExecutor(max_workers=nproc, mp_context=ctx) as ex:
            futs = [ex.submit(enum_worker, j) for j in enum_jobs] + [ex.submit(shard_worker, j) for j in jobs]
            results = [f.result() for f in futs]

    # --- 2b. coverage-guided campaigns (atheris/libFuzzer through the same strategy and oracle) -------------------
    fuzz_info = {}
    for pname, prof in mod.PROFILES.items():
        if not prof.fuzz or (only_profile and pname != only_profile) or examples is not None:
            continue
        runs = prof.fuzz[0] if tier == "quick" else prof.fuzz[1]
        if runs <= 0:
            continue
        fuzz_info[pname] = run_fuzz_campaign(prop, pname, runs, seed_value, nproc)
    merged = {}
    found = []
    for pname, info in fuzz_info.items():
        for v in info.pop("violations"):
            found.append({"case": v["case"], "failures": [tuple(f) for f in v["failures"]], "shard": "fuzz", "profile": pname})
        harness_errors.extend(info.pop("errors"))
    for r in results:
        pname = r["profile"]
        if "fatal" in r:
            harness_errors.append("profile %s shard %s: %s" % (pname, r["shard"], r["fatal"]))
            continue
        st = r["stats"]
        m = merged.setdefault(pname, new_stats())
        m["evaluations"] += st["evaluations"]
        m["nontrivial"].update(st["nontrivial"])
        m["nontrivial_total"] += st["nontrivial_total"]
        m["classes"].update(st["classes"])
        m["counts"].update(st["counts"])
        m["known_hits"].update(st["known_hits"])
        m["excluded_hits"].update(st["excluded_hits"])
        m["inconclusive"] += st["inconclusive"]
        for k, v in st["margins"].items():
            if v > m["margins"].get(k, 0.0):
                m["margins"][k] = v
        for s in st["samples"]:
            if len(m["samples"]) < 6:
                m["samples"].append(s)
        harness_errors.extend(st["harness_errors"][:2])
        m["slowest"].extend(st.get("slowest", []))
        found.extend(r["violations"])

    # one replay file per failure bucket (first failing clause), smallest case first
    buckets = {}
    for v in found:
        key = (v["profile"], v["failures"][0][0])
        size = len(json.dumps(v["case"], default=str))
        if key not in buckets or size < buckets[key][0]:
            buckets[key] = (size, v)
    for (pname, clause), (_, v) in sorted(buckets.items()):
        h = "%016x" % core.case_hash(v["case"])
        path = os.path.join(os.environ.get("VERIF_FOUND_DIR") or os.path.join(core.VERIF, "replays", "found"),
                            "%s-%s-%s.json" % (prop, clause.replace(".", "_"), h[:10]))
        core.write_replay(path, prop, pname, v["case"], v["failures"],
                          {"seed": seed_value, "tier": tier, "shard": v["shard"], "repo_commit": commit})
        violations += 1
        out_lines.append("VIOLATION property=%s replay=%s" % (prop, os.path.relpath(path, core.VERIF)))
        out_lines.append("  clauses: %s" % "; ".join("%s [%s]" % f for f in v["failures"][:3]))

    # --- 3. evidence -----------------------------------------------------------------------------
    evaluations = sum(m["evaluations"] for m in merged.values()) + reg_run
    distinct = sum(len(m["nontrivial"]) for m in merged.values())
    inconclusive = sum(m["inconclusive"] for m in merged.values())
    samples = []
    for pname, m in merged.items():
        for s in m["samples"][:max(2, 8 // max(1, len(merged)))]:
            samples.append({"profile": pname, "case": s})
    classes, margins, known_hits, excluded_hits, counts, per_profile = {}, {}, {}, {}, {}, {}
    for pname, m in merged.items():
        for k, v in m["classes"].items():
            classes["%s" % k] = classes.get(k, 0) + v
        for k, v in m["margins"].items():
            margins[k] = max(margins.get(k, 0.0), v)
        for k, v in m["known_hits"].items():
            known_hits[k] = known_hits.get(k, 0) + v
        for k, v in m["excluded_hits"].items():
            excluded_hits[k] = excluded_hits.get(k, 0) + v
        for k, v in m["counts"].items():
            counts[k] = counts.get(k, 0) + v
        per_profile[pname] = {"evaluations": m["evaluations"], "distinct_nontrivial": len(m["nontrivial"]),
                              "budget": prof_budget.get(pname), "inconclusive": m["inconclusive"]}
    coverage = {
        "evaluations": int(evaluations), "distinct_nontrivial": int(distinct),
        "rule": getattr(mod, "RULE", ""), "samples": samples,
        "classes": dict(sorted(classes.items())), "counters": dict(sorted(counts.items())),
        "clause_margins": {k: float("%.4g" % v) for k, v in sorted(margins.items())},
        "known_finding_hits": known_hits, "hits_in_already_reported_buckets": excluded_hits,
        "inconclusive": int(inconclusive), "regression_replays": reg_run, "profiles": per_profile,
        "shards": len(jobs), "repo_commit": commit,
    }
    if enumerated:
        coverage["enumerated_exhaustively"] = enumerated
    if fuzz_info:
        coverage["coverage_guided_fuzzing"] = fuzz_info
        evaluations += sum(i["valid_cases"] for i in fuzz_info.values())
        coverage["evaluations"] = int(evaluations)
    slow = sorted((x for m in merged.values() for x in m["slowest"]), key=lambda x: -x[0])[:3]
    if slow:
        coverage["slowest_cases_s"] = [{"seconds": t, "case": c[:600]} for t, c in slow]
    extra = getattr(mod, "coverage_extra", None)
    if extra:
        coverage.update(extra(tier, merged))
    evidence = {"property_id": prop, "tier": tier, "seed": int(seed_value), "level": getattr(mod, "LEVEL", "exploration"),
                "coverage": coverage, "assumptions": list(getattr(mod, "ASSUMPTIONS", [])),
                "wall_s": round(time.time() - t0, 2), "violations": int(violations)}
    if evaluations > 0 and inconclusive > max(3, 0.02 * evaluations):
        harness_errors.append("too many inconclusive cases: %d of %d" % (inconclusive, evaluations))
    # experiments against scratch trees (VERIF_REPO) must not overwrite the evidence of the real tree
    ev_path = os.path.join(os.environ.get("VERIF_EVIDENCE_DIR") or os.path.join(core.VERIF, "evidence"), "%s.json" % prop)
    os.makedirs(os.path.dirname(ev_path), exist_ok=True)
    with open(ev_path, "w") as f:
        json.dump(evidence, f, indent=1, default=str)
        f.write("\n")
    problems = validate_evidence(evidence)
    if problems:
        harness_errors.append("evidence does not validate: %s" % problems)

    for line in out_lines:
        print(line)
    print("%s tier=%s seed=%s evaluations=%d distinct_nontrivial=%d inconclusive=%d regress=%d wall=%.1fs violations=%d"
          % (prop, tier, seed_value, evaluations, distinct, inconclusive, reg_run, time.time() - t0, violations))
    if harness_errors:
        for h in harness_errors[:5]:
            sys.stderr.write("HARNESS-ERROR %s\n" % h)
        if violations == 0:
            return 2
    return 1 if violations else 0


def run_fuzz_campaign(prop, pname, runs, seed_value, nproc):
    """16 independent libFuzzer processes (different -seed, own corpus) on one profile; scratch under .deps/fuzz."""
    import re, shutil, importlib.util
    if importlib.util.find_spec("atheris") is None:
        return {"skipped": "atheris is not importable and could not be installed offline", "valid_cases": 0, "violations": [], "errors": []}
    base = os.path.join(core.VERIF, ".deps", "fuzz", "%s-%s" % (prop, pname))
    shutil.rmtree(base, ignore_errors=True)
    procs = []
    env = dict(os.environ)
    for i in range(min(16, nproc)):
        work = os.path.join(base, "shard%d" % i)
        os.makedirs(work, exist_ok=True)
        log = open(os.path.join(work, "log.txt"), "w")
        sd = 1 + core.hash32(seed_value, prop, pname, "fuzz", i) % (2 ** 31 - 2)
        procs.append((subprocess.Popen([sys.executable, "-m", "vp.fuzz", prop, pname, "--runs", str(runs), "--seed", str(sd), "--work", work],
                                       cwd=core.VERIF, env=env, stdout=log, stderr=subprocess.STDOUT), work, log))
    info = {"tool": "atheris (libFuzzer) on test.hypothesis.fuzz_one_input; dfols instrumented for edge coverage", "shards": len(procs),
            "runs_per_shard": runs, "executions": 0, "valid_cases": 0, "nontrivial_cases": 0, "edges_covered_max": 0, "corpus_units": 0,
            "violations": [], "errors": []}
    for p, work, log in procs:
        try:
            p.wait(timeout=6 * 3600)
        except subprocess.TimeoutExpired:
            p.kill()
        log.close()
        try:
            st = json.load(open(os.path.join(work, "stats.json")))
            info["executions"] += st["execs"]
            info["valid_cases"] += st["valid"]
            info["nontrivial_cases"] += st["nontrivial"]
        except Exception as e:
            info["errors"].append("fuzz shard %s: no stats (%r)" % (work, e))
        txt = open(os.path.join(work, "log.txt"), errors="replace").read()
        covs = re.findall(r"cov: (\d+) ft: (\d+) corp: (\d+)", txt)
        if covs:
            info["edges_covered_max"] = max(info["edges_covered_max"], int(covs[-1][0]))
            info["corpus_units"] += int(covs[-1][2])
        vpath = os.path.join(work, "violation.json")
        if os.path.exists(vpath):
            info["violations"].append(json.load(open(vpath)))
        elif p.returncode not in (0, None) and "stats" not in info["errors"][-1:] and not covs:
            info["errors"].append("fuzz shard %s exited with %s: %s" % (work, p.returncode, txt[-400:]))
    shutil.rmtree(base, ignore_errors=True)
    return info


def validate_evidence(evidence):
    try:
        import jsonschema
        schema_path = "/root/.vp/EVIDENCE.schema.json"
        if not os.path.exists(schema_path):
            schema_path = os.path.join(core.VERIF, "tools", "EVIDENCE.schema.json")
        schema = json.load(open(schema_path))
        errs = list(jsonschema.Draft202012Validator(schema).iter_errors(evidence))
        return "; ".join(e.message[:200] for e in errs[:3])
    except ImportError:
        cov = evidence.get("coverage", {})
        miss = [k for k in ("evaluations", "distinct_nontrivial", "rule", "samples") if k not in cov]
        if miss:
            return "missing %s" % miss
        if cov["evaluations"] < 1 or cov["distinct_nontrivial"] < 2 or not cov["samples"]:
            return "counts too small (evaluations=%s distinct_nontrivial=%s samples=%d)" % (
                cov["evaluations"], cov["distinct_nontrivial"], len(cov["samples"]))
        return ""


def run_replay(prop, path):
    mod = load_prop(prop)
    known = [e for e in core.load_known(prop) if e.kind == "known"]
    doc = core.read_replay(path)
    unlisted, hits, res = evaluate_single(mod, doc["profile"], doc["case"], known)
    for clause, detail in res.failures:
        print("  failed %s: %s" % (clause, detail))
    for k in sorted(set(hits)):
        e = [e for e in known if e.key == k][0]
        print("KNOWN-FINDING: property=%s %s (key=%s)" % (prop, e.text, k))
    if unlisted:
        print("VIOLATION property=%s replay=%s" % (prop, path))
        return 1
    print("%s replay %s: holds" % (prop, path))
    return 0


def main(argv=None):
    ap = argparse.ArgumentParser()
    ap.add_argument("prop", nargs="?")
    ap.add_argument("--tier", default=None)
    ap.add_argument("--replay", default=None)
    ap.add_argument("--setup", action="store_true")
    ap.add_argument("--examples", type=int, default=None)
    ap.add_argument("--profile", default=None)
    ap.add_argument("--workers", type=int, default=None)
    a = ap.parse_args(argv)
    try:
        ensure_deps(verbose=a.setup)
        if a.setup:
            core.import_dfols()
            print("setup ok")
            return 0
        if not a.prop:
            ap.error("property id required")
        core.import_dfols()
        prop = a.prop.upper()
        if a.replay:
            return run_replay(prop, a.replay)
        tier = os.environ.get("VERIF_TIER") or a.tier or "quick"
        if tier not in ("quick", "thorough"):
            tier = "quick"
        seed_value = int(os.environ.get("VERIF_SEED", "1") or 1)
        return run_check(prop, tier, seed_value, a.examples, a.profile, a.workers)
    except HarnessError as e:
        sys.stderr.write("HARNESS-ERROR %s\n" % e)
        return 2
    except Exception:
        sys.stderr.write("HARNESS-ERROR %s\n" % traceback.format_exc())
        return 2


if __name__ == "__main__":
    sys.exit(main())
