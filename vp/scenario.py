"""Shared solve-level machinery: case generator, objective/constraint builders, instrumented run.

A *case* is a plain JSON-able dict; `run_solve(case)` rebuilds every callable from it, runs dfols.solve
under the recording wrappers and returns an Observation. Nothing here judges anything: clauses live in
vp/clauses.py and the property modules.
"""
import re, sys, copy, math, struct, hashlib, logging, warnings
import numpy as np
from hypothesis import strategies as st

from . import core
from .core import HarnessError, Livelock

dfols = core.import_dfols()
import dfols.model as _M          # noqa: E402
import dfols.solver as _S         # noqa: E402
import dfols.controller as _C     # noqa: E402
import dfols.util as _U           # noqa: E402
import dfols.trust_region as _T   # noqa: E402

EPS = float(np.finfo(float).eps)
LIVELOCK_CAP = 20000          # consecutive main-loop iterations without one objective evaluation
NOBOUND = 1e20

# ------------------------------------------------------------------------------------------------
# instrumentation (monkey patches; no source change). Missing names => HarnessError (exit 2).
# ------------------------------------------------------------------------------------------------
_CUR = [None]


class Obs(object):
    def __init__(self):
        self.calls = []           # (x copy, r copy as handed to the solver | None if raised)
        self.evlog = []           # (eval number, point number) parsed from the dfols log
        self.ns_calls = []        # (number of calls made so far, (delta, rho, iter, nruns), returned value)
        self.soln = None
        self.exc = None
        self.livelock = False
        self.warnings = []
        self.nfits = 0
        self.fits_since_eval = 0
        self.nshifts = 0
        self.main_calls = []      # number of objective calls made when each solve_main started
        self.main_returns = []    # (calls made, objmin returned) per solve_main
        self.soft_restarts = []   # number of objective calls made when each soft restart was granted
        self.soft_refused = 0
        self.iter_hook = None
        self.iter_fail = []
        self.dyk = None
        self.hcalls = []
        self.proxcalls = []
        self.inputs_before = None
        self.inputs_after = None
        self.raised_inside = None
        self.rng_after = None


for _obj, _name in ((_M.Model, "interpolate_mini_models_svd"), (_M.Model, "shift_base"), (_S, "solve_main"),
                    (_C.Controller, "soft_restart"), (_S, "solve"), (_U, "dykstra")):
    if not hasattr(_obj, _name):
        raise HarnessError("dfols internals changed: %s.%s not found" % (getattr(_obj, "__name__", _obj), _name))

_orig_fit = _M.Model.interpolate_mini_models_svd
_orig_shift = _M.Model.shift_base
_orig_main = _S.solve_main
_orig_soft = _C.Controller.soft_restart


def _fit(self, *a, **k):
    o = _CUR[0]
    if o is not None:
        o.nfits += 1
        o.fits_since_eval += 1
        if o.fits_since_eval > LIVELOCK_CAP:
            raise Livelock("%d iterations without an evaluation" % o.fits_since_eval)
        if o.iter_hook is not None:
            o.iter_hook(o, self)
    return _orig_fit(self, *a, **k)


def _shift(self, *a, **k):
    o = _CUR[0]
    if o is not None:
        o.nshifts += 1
    return _orig_shift(self, *a, **k)


def _main(*a, **k):
    o = _CUR[0]
    if o is not None:
        o.main_calls.append(len(o.calls))
    out = _orig_main(*a, **k)
    if o is not None:
        try:
            o.main_returns.append((len(o.calls), float(out[2]), int(out[7])))
        except Exception:
            o.main_returns.append((len(o.calls), None, None))
    return out


def _soft(self, *a, **k):
    o = _CUR[0]
    out = _orig_soft(self, *a, **k)
    if o is not None:
        if out is None:
            o.soft_restarts.append(len(o.calls))
        else:
            o.soft_refused += 1
    return out


_M.Model.interpolate_mini_models_svd = _fit
_M.Model.shift_base = _shift
_S.solve_main = _main
_C.Controller.soft_restart = _soft

_PAT = re.compile(r"Function eval (\d+) at point (\d+) has")


class _LogHandler(logging.Handler):
    def emit(self, record):
        o = _CUR[0]
        if o is None:
            return
        msg = record.msg if isinstance(record.msg, str) else str(record.msg)
        if msg.startswith("Function eval"):
            mt = _PAT.match(msg)
            if mt:
                o.evlog.append((int(mt.group(1)), int(mt.group(2))))


_logger = logging.getLogger("dfols")
_logger.setLevel(logging.INFO)
_logger.propagate = False
_logger.addHandler(_LogHandler())


# ------------------------------------------------------------------------------------------------
# builders
# ------------------------------------------------------------------------------------------------
def prf(seed, data, m):
    """Keyed hash -> m floats uniform in [-1, 1): deterministic in (seed, data)."""
    out = []
    ctr = 0
    while len(out) < m:
        h = hashlib.blake2b(data + struct.pack("<I", ctr), digest_size=64, key=struct.pack("<Q", seed & (2 ** 64 - 1))).digest()
        out.extend(np.frombuffer(h, dtype=np.uint64).astype(float) / 2.0 ** 63 - 1.0)
        ctr += 1
    return np.array(out[:m])


def resid_dim(case):
    f = case["fam"]
    n = case["n"]
    if f == "rosen":
        return 2 * (n - 1) if n > 1 else 2
    if f == "boxdomain":
        return case["m"] + len(boxdomain_terms(case))
    if f == "script":
        return len(case["script"][0])
    return case["m"]


def boxdomain_terms(case):
    t = []
    lo, up = case.get("lower"), case.get("upper")
    for i in range(case["n"]):
        if lo is not None and abs(lo[i]) < 1e19:
            t.append((i, "l", lo[i]))
        if up is not None and abs(up[i]) < 1e19:
            t.append((i, "u", up[i]))
    return t


def smooth_resid(case, x):
    """The deterministic part of the residual at x (no noise, no fault, no script)."""
    f = case["fam"]
    n = case["n"]
    if f in ("lin", "sinlin", "hashed", "boxdomain", "hinge"):
        A = np.array(case["A"], dtype=float).reshape(case["m"], n)
        b = np.array(case["b"], dtype=float)
        r = A.dot(x) - b
        if f == "sinlin":
            r = r + case["gamma"] * np.sin(case["omega"] * A.dot(x) + np.arange(case["m"]))
        elif f == "hinge":
            r = np.maximum(r, 0.0)      # piecewise linear: flat (zero gradient) once a residual has been driven to zero
        elif f == "hashed":
            r = r + case["amp"] * prf(case["prf_seed"], np.ascontiguousarray(x, dtype=float).tobytes(), case["m"])
        elif f == "boxdomain":
            extra = []
            with np.errstate(invalid="ignore"):
                for (i, side, v) in boxdomain_terms(case):
                    extra.append(np.sqrt(x[i] - v) if side == "l" else np.sqrt(v - x[i]))
            r = np.concatenate([r, np.array(extra, dtype=float)])
        return r
    if f == "big":       # many residuals without a stored matrix (printing thresholds of C20)
        i = np.arange(case["m"], dtype=float)
        j = np.arange(1, n + 1, dtype=float)
        return (np.cos(np.outer(i, j)) / j).dot(x) - np.sin(i)
    if f == "rosen":
        if n == 1:
            return np.array([x[0] - 1.0, 0.1 * x[0]])
        return np.concatenate([10.0 * (x[1:] - x[:-1] ** 2), 1.0 - x[:-1]])
    raise HarnessError("unknown family %r" % f)


def make_objfun(case, o):
    fam = case["fam"]
    noise = case.get("noise")
    fault = case.get("fault")
    script = np.array(case["script"], dtype=float) if fam == "script" else None

    def objfun(x, *args):
        k = len(o.calls) + 1
        o.fits_since_eval = 0
        xc = np.array(x, dtype=float, copy=True)
        if o.argsf_expected is not None and tuple(args) != o.argsf_expected:
            o.bad_args = True
        if script is not None:
            r = script[(k - 1) % len(script)].copy()
        else:
            r = np.array(smooth_resid(case, xc), dtype=float)
        nh = case.get("nan_half")
        if nh is not None and float(np.dot(nh["a"], xc)) > nh["beta"]:
            r = np.full(len(r), np.nan)         # deterministic objective that is undefined (NaN) on a half-space not containing x0
        if noise:
            z = prf(noise["seed"] + 7919 * k, b"noise", len(r))
            r = r * (1.0 + noise.get("mult", 0.0) * z) + noise.get("add", 0.0) * z
        if fault is not None and (k == fault["k"] or (fault.get("sticky") and k >= fault["k"])):
            kind = fault["kind"]
            if kind.startswith("raise"):
                # plain 'raise' is a user-defined exception class; the suffixed kinds are the classes dfols' own handlers
                # catch around linear algebra / overflow guards (an evaluation moved inside such a try block would swallow them)
                cls = {"raise": FaultInjected, "raise-linalg": np.linalg.LinAlgError, "raise-value": ValueError,
                       "raise-overflow": OverflowError}[kind]
                o.calls.append((xc, None))
                o.raised_inside = cls("injected at evaluation %d" % k)
                raise o.raised_inside
            v = {"nan": np.nan, "inf": np.inf, "-inf": -np.inf, "big": 1e200}[kind]
            if fault.get("comp", "all") == "all":
                r = np.full(len(r), v)
            else:
                r[int(fault["comp"]) % len(r)] = v
        o.calls.append((xc, r.copy()))
        return r

    return objfun


class FaultInjected(Exception):
    pass


def make_regulariser(case, o):
    reg = case.get("reg")
    if not reg:
        return {}
    lam = float(reg["lam"])
    n = case["n"]
    kind = reg["kind"]

    def h_core(x, lam):
        return lam * (np.sum(np.abs(x)) if kind == "l1" else np.linalg.norm(x))

    def prox_core(x, u, lam):
        x = np.asarray(x, dtype=float)
        if kind == "l1":
            return np.sign(x) * np.maximum(np.abs(x) - lam * u, 0.0)
        nx = np.linalg.norm(x)
        return x * max(1.0 - lam * u / nx, 0.0) if nx > 0 else x.copy()

    lh = lam * (math.sqrt(n) if kind == "l1" else 1.0)
    lh = lh * reg.get("lh_factor", 1.0)
    conv = reg.get("conv", "closure")
    h_args = conv in ("args", "argsh")
    p_args = conv in ("args", "argsprox")

    def h(x, *a):
        o.hcalls.append(tuple(a))
        if h_args:
            return h_core(x, *a) if len(a) == 1 else float("nan")
        return h_core(x, lam)

    def prox(x, u, *a):
        o.proxcalls.append(tuple(a))
        if p_args:
            return prox_core(x, u, *a) if len(a) == 1 else np.full(len(x), np.nan)
        return prox_core(x, u, lam)
    out = {"h": h, "lh": lh, "prox_uh": prox}
    if h_args:
        out["argsh"] = (lam,)
    if p_args:
        out["argsprox"] = (lam,)
    return out


def reg_value(case, x):
    reg = case.get("reg")
    if not reg:
        return 0.0
    lam = float(reg["lam"])
    return lam * (np.sum(np.abs(x)) if reg["kind"] == "l1" else np.linalg.norm(x))


# ---- convex sets ---------------------------------------------------------------------------------
def set_projector(spec, alias=False):
    """Exact Euclidean projector of the set. alias=True: a feasible argument is handed back as the same object (the common
    `if inside: return x` idiom of user-written projectors) instead of a copy."""
    if alias:
        base = set_projector(spec, alias=False)

        def p(x):
            return x if set_distance(spec, x) == 0.0 else base(x)
        return p
    kind = spec["kind"]
    if kind == "ball":
        c = np.array(spec["c"], dtype=float)
        r = float(spec["r"])

        def p(x):
            d = x - c
            nd = np.linalg.norm(d)
            return x.copy() if nd <= r else c + d * (r / nd)
        return p
    if kind == "half":
        a = np.array(spec["a"], dtype=float)
        beta = float(spec["beta"])
        aa = a.dot(a)

        def p(x):
            v = a.dot(x) - beta
            return x.copy() if v <= 0 else x - (v / aa) * a
        return p
    if kind == "box":
        lo = np.array(spec["l"], dtype=float)
        up = np.array(spec["u"], dtype=float)
        return lambda x: np.minimum(np.maximum(x, lo), up)
    if kind == "simplex":
        s = float(spec.get("s", 1.0))

        def p(x):
            n = len(x)
            u = np.sort(x)[::-1]
            css = np.cumsum(u) - s
            ind = np.arange(1, n + 1)
            cond = u - css / ind > 0
            rho = ind[cond][-1]
            theta = css[cond][-1] / rho
            return np.maximum(x - theta, 0.0)
        return p
    raise HarnessError("unknown set %r" % kind)


def set_distance(spec, x):
    kind = spec["kind"]
    if kind == "ball":
        return max(0.0, float(np.linalg.norm(x - np.array(spec["c"], dtype=float)) - spec["r"]))
    if kind == "half":
        a = np.array(spec["a"], dtype=float)
        return max(0.0, float(a.dot(x) - spec["beta"])) / float(np.linalg.norm(a))
    if kind == "box":
        lo = np.array(spec["l"], dtype=float)
        up = np.array(spec["u"], dtype=float)
        return float(np.linalg.norm(x - np.minimum(np.maximum(x, lo), up)))
    if kind == "simplex":
        return float(np.linalg.norm(x - set_projector(spec)(x)))
    raise HarnessError("unknown set %r" % kind)


# ------------------------------------------------------------------------------------------------
# instrumented run
# ------------------------------------------------------------------------------------------------
def make_nsamples(case, o):
    spec = case.get("nsamples")
    if not spec:
        return None
    if "const" in spec:
        k = int(spec["const"])

        def ns(delta, rho, it, nruns):
            o.ns_calls.append((len(o.calls), (float(delta), float(rho), int(it), int(nruns)), k))
            return k
        return ns
    if "rule" in spec:
        a_, b_ = int(spec["rule"][0]), int(spec["rule"][1])

        def ns(delta, rho, it, nruns):       # depends on the radii: its answer can change within one iteration
            v = a_ if delta <= rho * (1 + 1e-12) else b_
            o.ns_calls.append((len(o.calls), (float(delta), float(rho), int(it), int(nruns)), v))
            return v
        return ns
    table = spec["table"]

    def ns(delta, rho, it, nruns):
        row = table[int(nruns) % len(table)]
        v = int(row[int(max(it, 0)) % len(row)])
        o.ns_calls.append((len(o.calls), (float(delta), float(rho), int(it), int(nruns)), v))
        return v
    return ns


def solve_kwargs(case, o):
    n = case["n"]
    kw = {}
    lo, up = case.get("lower"), case.get("upper")
    if lo is not None or up is not None:
        kw["bounds"] = (None if lo is None else np.array(lo, dtype=float), None if up is None else np.array(up, dtype=float))
    for key in ("npt", "rhobeg", "rhoend", "maxfun"):
        if case.get(key) is not None:
            kw[key] = case[key]
    ns = make_nsamples(case, o)
    if ns is not None:
        kw["nsamples"] = ns
    if case.get("noise_flag"):
        kw["objfun_has_noise"] = True
    if case.get("scaling"):
        kw["scaling_within_bounds"] = True
    if case.get("up") is not None:
        kw["user_params"] = dict(case["up"])
    kw.update(make_regulariser(case, o))
    if case.get("proj"):
        kw["projections"] = [set_projector(s) for s in case["proj"]]
    if case.get("argsf"):
        kw["argsf"] = tuple(case["argsf"])
    if case.get("print_progress"):
        kw["print_progress"] = True
    if case.get("do_logging") is False:
        kw["do_logging"] = False
    return kw


def run_solve(case, iter_hook=None, dykstra_log=None, x0_override=None, np_seed=None, kw_hook=None):
    o = Obs()
    o.iter_hook = iter_hook
    o.argsf_expected = tuple(case["argsf"]) if case.get("argsf") else None
    o.bad_args = False
    objfun = make_objfun(case, o)
    kw = solve_kwargs(case, o)
    x0 = np.array(case["x0"], dtype=float) if x0_override is None else x0_override
    if kw_hook is not None:
        x0, kw = kw_hook(x0, kw)
    o.inputs_before = (x0.copy(), None if "bounds" not in kw else tuple(None if b is None else b.copy() for b in kw["bounds"]),
                       copy.deepcopy(kw.get("user_params")))
    np.random.seed(case.get("np_seed", 0) if np_seed is None else np_seed)
    _CUR[0] = o
    if dykstra_log is not None:
        dykstra_log.install(o)
    saved_stdout = sys.stdout
    if kw.get("print_progress"):
        sys.stdout = _NullOut()       # the progress table goes to stdout
    try:
        with warnings.catch_warnings(record=True) as w:
            warnings.simplefilter("always")
            try:
                o.soln = dfols.solve(objfun, x0, **kw)
            except Livelock:
                o.livelock = True
            except Exception as e:      # judged by the property clauses, never swallowed silently
                o.exc = e
        o.warnings = [str(x.message) for x in w][:50]
    finally:
        sys.stdout = saved_stdout
        _CUR[0] = None
        o.rng_after = np.random.get_state()
        if dykstra_log is not None:
            dykstra_log.uninstall()
    o.inputs_after = (x0, kw.get("bounds"), kw.get("user_params"))
    return o


class _NullOut(object):
    def write(self, s):
        return len(s)

    def flush(self):
        pass


class DykstraLog(object):
    """Replaces the name `dykstra` in every dfols module that imported it by a wrapper that calls the real routine
    with counting projector proxies. From the proxies alone it reconstructs the number of sweeps and the routine's
    stopping quantity of every sweep (replicating the routine's own increment arithmetic from the arguments and results the
    proxies see), hence
    whether the call stopped by its rule or by the sweep cap."""
    MODS = (_M, _C, _S, _T)

    def __init__(self):
        self.real = _U.dykstra
        self.calls = []       # dict(out, by_rule, sweeps, tol, p, max_iter, x_in)
        self.saved = None
        for mod in self.MODS:
            if not hasattr(mod, "dykstra"):
                raise HarnessError("dfols internals changed: %s has no name 'dykstra'" % mod.__name__)

    def wrapped(self, P, x0, max_iter=100, tol=1e-10):
        st_ = {"cnt": 0, "cI": 0.0, "sweeps": [], "y": [np.zeros(len(x0)) for _ in P]}

        def wrap(i, Pi):
            def w(v):
                out = Pi(v)
                if i == 0:
                    if st_["cnt"] > 0:
                        st_["sweeps"].append(st_["cI"])
                    st_["cI"] = 0.0
                    st_["cnt"] += 1
                # the routine's own arithmetic, bit for bit: its new increment is out - v (v = prev_x - old increment is
                # the argument it passes) and its stopping quantity sums ||old increment - new increment||^2. (The
                # mathematically equal "squared move between consecutive outputs" differs in floating point when the
                # increments are huge, e.g. start points 1e18 away: an earlier version raised a false alarm there.)
                ynew = out - v
                st_["cI"] += float(np.linalg.norm(st_["y"][i] - ynew) ** 2)
                st_["y"][i] = np.array(ynew, dtype=float, copy=True)
                return out
            return w
        x = self.real([wrap(i, Pi) for i, Pi in enumerate(P)], x0, max_iter=max_iter, tol=tol)
        st_["sweeps"].append(st_["cI"])
        by_rule = st_["cnt"] > 0 and st_["sweeps"][-1] < tol
        self.calls.append({"out": np.array(x, dtype=float, copy=True), "by_rule": bool(by_rule), "sweeps": st_["cnt"],
                           "last": st_["sweeps"][-1], "early": [v for v in st_["sweeps"][:-1] if v < tol][:1],
                           "tol": float(tol), "p": len(P), "max_iter": max_iter, "x_in": np.array(x0, dtype=float, copy=True)})
        return x

    def install(self, o):
        o.dyk = self
        self.saved = [(mod, mod.dykstra) for mod in self.MODS]
        for mod in self.MODS:
            mod.dykstra = self.wrapped

    def uninstall(self):
        if self.saved:
            for mod, fn in self.saved:
                mod.dykstra = fn
            self.saved = None


# ------------------------------------------------------------------------------------------------
# generators
# ------------------------------------------------------------------------------------------------
g8 = st.integers(-32, 32).map(lambda k: k / 8.0)
g10 = st.integers(-50, 50).map(lambda k: k / 10.0)


def dec(x, sig=6):
    """Nearest double to the decimal literal with `sig` significant digits (an 'awkward' non-dyadic number)."""
    return float("%.*g" % (sig, x))


DEFAULT_PROF = {
    "fams": ["lin", "sinlin", "rosen", "hashed", "script", "boxdomain"],
    "nmax": 4, "mmax": 5,
    "bounds": ["none", "box", "box", "lower", "upper", "mixed", "scaled"],
    "avg": True, "noise": True, "restarts": True, "opts": True, "noise_flag": True,
    "maxfuns": [1, 2, 3, "npt-1", "npt", "npt+1", 10, 30, 60, 150],
    "diag": 0.5, "reg": 0.0, "proj": 0.0, "npt_extra": True, "zero_resid": 0.1, "rhoend_exps": [1, 2, 3, 5, 8],
}


def make_prof(**over):
    p = dict(DEFAULT_PROF)
    p.update(over)
    return p


@st.composite
def draw_matrix(draw, m, n, fullrank=True):
    A = [[draw(g8) for _ in range(n)] for _ in range(m)]
    if fullrank:
        # construction, not rejection: add a scaled identity pattern when the drawn matrix is rank deficient
        a = np.array(A, dtype=float)
        if np.linalg.matrix_rank(a) < min(m, n):
            for i in range(min(m, n)):
                a[i, i] += 1.0 + i
            A = a.tolist()
    return A


@st.composite
def draw_geometry(draw, n, kind, place_full=True):
    """Bounds, rhobeg and x0 (section 3.2 of DESIGN.md). Returns dict(lower, upper, scaling, rhobeg, x0, tags)."""
    tags = []
    mag = 10.0 ** draw(st.integers(-2, 3))
    lower = upper = None
    scaling = False
    if kind != "none":
        lo, up = [], []
        for i in range(n):
            a = draw(g10) * mag
            w = draw(st.integers(2, 60)) / 10.0 * mag * draw(st.sampled_from([1.0, 0.1, 0.37]))
            sides = "both"
            if kind == "mixed":
                sides = draw(st.sampled_from(["both", "l", "u", "none"]))
            lo.append(dec(a) if sides in ("both", "l") else -NOBOUND)
            up.append(dec(a + w) if sides in ("both", "u") else NOBOUND)
        if kind == "lower":
            lower, upper = lo, None
        elif kind == "upper":
            lower, upper = None, up
        else:
            lower, upper = lo, up
        scaling = kind == "scaled"
    lo_eff = [(-math.inf if lower is None or lower[i] <= -1e19 else lower[i]) for i in range(n)]
    up_eff = [(math.inf if upper is None or upper[i] >= 1e19 else upper[i]) for i in range(n)]
    gaps = [up_eff[i] - lo_eff[i] for i in range(n) if math.isfinite(lo_eff[i]) and math.isfinite(up_eff[i])]
    t = draw(st.sampled_from([0.0, 2.0 ** -40, 0.5, 0.5, 3.0, 3.0, 100.0]))
    if scaling:
        rhobeg = draw(st.sampled_from([None, 1.0 / (2.0 * (1.0 + t))]))
        rb_user = [(0.1 if rhobeg is None else rhobeg) * (up_eff[i] - lo_eff[i]) for i in range(n)]
    elif gaps:
        rhobeg = min(gaps) / (2.0 * (1.0 + t))
        rb_user = [rhobeg] * n
        if t == 0.0:
            tags.append("rhobeg=gap/2")
    else:
        rhobeg = draw(st.sampled_from([None, 0.1 * mag, mag, 0.01 * mag]))
        rb_user = [rhobeg if rhobeg is not None else 0.1 * max(mag, 1.0)] * n
    x0 = []
    for i in range(n):
        l, u, d = lo_eff[i], up_eff[i], rb_user[i]
        fl, fu = math.isfinite(l), math.isfinite(u)
        if not fl and not fu:
            x0.append(dec(draw(g10) * mag))
            continue
        choices = ["interior", "interior", "interior"]
        if fl:
            choices += ["on_l", "near_l", "ulp_in_l"] + (["out_l", "ulp_out_l"] if place_full else [])
        if fu:
            choices += ["on_u", "near_u", "ulp_in_u"] + (["out_u", "ulp_out_u"] if place_full else [])
        c = draw(st.sampled_from(choices))
        f = draw(st.sampled_from([0.005, 0.01, 0.011, 0.5, 0.99, 1.0]))
        if c == "interior":
            if fl and fu:
                v = l + draw(st.sampled_from([0.25, 0.5, 0.75, 1.0 / 3.0])) * (u - l)
            elif fl:
                v = l + draw(st.sampled_from([2.5, 7.0])) * d
            else:
                v = u - draw(st.sampled_from([2.5, 7.0])) * d
        elif c == "on_l":
            v = l
        elif c == "on_u":
            v = u
        elif c == "ulp_in_l":
            # one ulp inside; for a bound at exactly 0 a hair of 1e-100 (a gap whose square underflows, < 1e-150, is the
            # known finding 'subnormal-gap' of C07: pinned replays only)
            v = float(np.nextafter(l, math.inf)) if l != 0.0 else 1e-100
        elif c == "ulp_in_u":
            v = float(np.nextafter(u, -math.inf)) if u != 0.0 else -1e-100
        elif c == "near_l":
            v = l + f * d
        elif c == "near_u":
            v = u - f * d
        elif c == "out_l":
            v = l - draw(st.sampled_from([0.3, 2.0])) * (d if not fu else (u - l))
        elif c == "out_u":
            v = u + draw(st.sampled_from([0.3, 2.0])) * (d if not fl else (u - l))
        elif c == "ulp_out_l":
            v = float(np.nextafter(l, -math.inf))
        else:
            v = float(np.nextafter(u, math.inf))
        if c != "interior":
            tags.append("x0:" + c)
        x0.append(float(v))
    return {"lower": lower, "upper": upper, "scaling": scaling, "rhobeg": rhobeg, "x0": x0, "tags": tags, "mag": mag}


@st.composite
def draw_options(draw, n, npt, prof, has_two_sided, force_opt=None):
    """user_params and related arguments; respects the preconditions listed in DESIGN.md section 3.4."""
    up = {}
    tags = []
    maxnpt = (n + 1) * (n + 2) // 2
    mode = "none"
    if prof["restarts"]:
        mode = draw(st.sampled_from(["none", "none", "soft", "soft", "hard", "hard"]))
    if mode != "none":
        up["restarts.use_restarts"] = True
        tags.append("restarts:" + mode)
        if mode == "hard":
            up["restarts.use_soft_restarts"] = False
            if draw(st.integers(0, 2)) == 0:
                up["restarts.hard.use_old_rk"] = False
        if draw(st.integers(0, 2)) == 0:
            up["restarts.rhoend_scale"] = draw(st.sampled_from([0.1, 0.5, 1.0]))
        if draw(st.integers(0, 3)) == 0 and n > 1 and npt < maxnpt:
            up["restarts.increase_npt"] = True
            up["restarts.max_npt"] = min(npt + draw(st.integers(1, 3)), maxnpt)
            if mode == "soft" and draw(st.booleans()):
                # hard restarts that add more points per restart than initial directions re-enter the growing phase
                # with npt > n+1 (known finding 'hard-restart-npt-growth' of C07): soft restarts only
                up["restarts.increase_npt_amt"] = draw(st.integers(1, 2))
            tags.append("increase_npt")
        elif n > 1 and npt < maxnpt and draw(st.integers(0, 5)) == 0:
            up["restarts.max_npt"] = min(npt + draw(st.integers(1, 3)), maxnpt)      # a cap without restarts.increase_npt: no effect
        if draw(st.integers(0, 1)) == 0:
            up["restarts.max_unsuccessful_restarts"] = draw(st.sampled_from([1, 2, 3]))
        if draw(st.integers(0, 2)) == 0:
            up["restarts.auto_detect.history"] = draw(st.sampled_from([3, 6]))
            if draw(st.booleans()):
                up["restarts.auto_detect.min_chgJ_slope"] = 0.0
                up["restarts.auto_detect.min_correl"] = 0.0
        elif draw(st.integers(0, 4)) == 0:
            up["restarts.auto_detect"] = False
        if mode == "soft":
            if draw(st.integers(0, 3)) == 0:
                up["restarts.soft.move_xk"] = False
            if draw(st.integers(0, 3)) == 0:
                up["restarts.soft.num_geom_steps"] = draw(st.sampled_from([0, 1, 2, 5]))
            if draw(st.integers(0, 5)) == 0:
                up["restarts.soft.max_fake_successful_steps"] = draw(st.sampled_from([1, 2, 4]))
    if prof["opts"]:
        o = draw(st.sampled_from(prof.get("opts_list") or list(range(14))))
        if force_opt is not None:
            o = force_opt
        if o == 0 and n > 1 and npt == n + 1 and "restarts.increase_npt" not in up:
            up["growing.ndirs_initial"] = draw(st.integers(1, n - 1))
            g = draw(st.sampled_from(prof.get("growing_list") or ["default", "perturb", "newdirs", "geom", "safety_reduce", "safety_full", "reset",
                                                                  "gamma_dec", "no_safety", "delta_scale", "full_rank_params"]))
            if g == "perturb":
                up["growing.full_rank.use_full_rank_interp"] = False
                up["growing.perturb_trust_region_step"] = True
            elif g == "newdirs":
                up["growing.num_new_dirns_each_iter"] = draw(st.integers(1, 2))
                up["growing.do_geom_steps"] = draw(st.booleans())
            elif g == "geom":
                up["growing.do_geom_steps"] = True
            elif g == "safety_reduce":
                up["growing.safety.reduce_delta"] = True
            elif g == "safety_full":
                up["growing.safety.full_geom_step"] = True
            elif g == "reset":
                up["growing.reset_delta"] = True
                up["growing.reset_rho"] = draw(st.booleans())
            elif g == "gamma_dec":
                up["growing.gamma_dec"] = draw(st.sampled_from([0.25, 0.9]))
            elif g == "no_safety":
                up["growing.safety.do_safety_step"] = False
            elif g == "delta_scale":
                up["growing.delta_scale_new_dirns"] = draw(st.sampled_from([0.1, 0.5, 2.0]))
                up["growing.num_new_dirns_each_iter"] = draw(st.integers(0, 2))
            elif g == "full_rank_params":
                up["growing.full_rank.scale_factor"] = draw(st.sampled_from([1e-2, 1.0]))
                up["growing.full_rank.min_sing_val"] = draw(st.sampled_from([1e-6, 1e-2]))
                up["growing.full_rank.svd_scale_factor"] = draw(st.sampled_from([1.0, 0.1]))
                up["growing.full_rank.svd_max_jac_cond"] = draw(st.sampled_from([1e2, 1e8]))
            if mode == "hard" and draw(st.integers(0, 2)) == 0:
                up["restarts.hard.increase_ndirs_initial_amt"] = draw(st.sampled_from([0, 2]))
            tags.append("growing:" + g)
        elif o == 1:
            up["init.random_initial_directions"] = True
            up["init.random_directions_make_orthogonal"] = draw(st.booleans())
            if draw(st.integers(0, 2)) == 0:
                up["init.run_in_parallel"] = True
            tags.append("random-init")
        elif o == 2 and npt > n + 1:
            up["regression.num_extra_steps"] = draw(st.sampled_from([1, 1, 2, npt, npt + 2]))     # the solver caps it at npt-1
            up["regression.momentum_extra_steps"] = draw(st.booleans())
            if mode != "none" and draw(st.booleans()):
                up["regression.increase_num_extra_steps_with_restart"] = draw(st.sampled_from([1, 1, 2]))
            tags.append("regression-steps")
        elif o == 3:
            up["slow.max_slow_iters"] = draw(st.sampled_from([1, 3]))
            up["slow.thresh_for_slow"] = draw(st.sampled_from([1e-4, 1e-1, 1.0]))
            up["slow.history_for_slow"] = draw(st.sampled_from([1, 2, 5]))
            tags.append("slow")
        elif o == 4:
            up["tr_radius.gamma_dec"] = draw(st.sampled_from([0.25, 0.5, 0.98]))
            up["tr_radius.alpha1"] = draw(st.sampled_from([0.1, 0.5, 0.9, 0.01, 1e-3, 1e-3]))
            up["tr_radius.alpha2"] = draw(st.sampled_from([0.5, 0.95]))
            if draw(st.booleans()):
                up["tr_radius.gamma_inc"] = draw(st.sampled_from([1.0, 2.0, 5.0]))
                up["tr_radius.gamma_inc_overline"] = draw(st.sampled_from([1.0, 4.0]))
            tags.append("tr_radius")
        elif o == 5:
            up["model.abs_tol"] = draw(st.sampled_from([1e-12, 1e-6, 1e-2, 1.0]))
            up["model.rel_tol"] = draw(st.sampled_from([1e-20, 1e-6, 1e-2, 0.5]))
            tags.append("tols")
        elif o == 6:
            up["interpolation.precondition"] = False
        elif o == 7:
            up["general.safety_step_thresh"] = draw(st.sampled_from([0.1, 0.5, 0.9]))
            up["general.rounding_error_constant"] = draw(st.sampled_from([0.0, 0.1, 10.0]))
            tags.append("general")
        elif o == 8 and prof.get("noise_flag", True):
            up["noise.quit_on_noise_level"] = True
            if draw(st.booleans()):
                up["noise.additive_noise_level"] = draw(st.sampled_from([1e-6, 1e-2, 1.0]))
            else:
                up["noise.multiplicative_noise_level"] = draw(st.sampled_from([1e-6, 1e-2, 0.5]))
            up["noise.scale_factor_for_quit"] = draw(st.sampled_from([1.0, 10.0]))
            tags.append("noise-quit")
        elif o == 9:
            up["logging.n_to_print_whole_x_vector"] = draw(st.sampled_from([0, 1, 6]))
        elif o == 12:
            up["tr_radius.eta1"] = draw(st.sampled_from([0.01, 0.1, 0.3]))
            up["tr_radius.eta2"] = draw(st.sampled_from([0.5, 0.7, 0.95]))
            tags.append("eta")
        elif o == 13 and prof.get("overflow_off", True):
            up["general.check_objfun_for_overflow"] = False      # only meaningful without injected overflow (C08 switches it off)
    return up, tags, mode


@st.composite
def scenarios(draw, prof=None):
    prof = prof or DEFAULT_PROF
    n = draw(st.integers(1, prof["nmax"]))
    fam = draw(st.sampled_from(prof["fams"]))
    kind = draw(st.sampled_from(prof["bounds"]))
    if fam == "boxdomain" and kind == "none":
        fam = "lin"
    if fam == "rosen" and n == 1 and draw(st.booleans()):
        n = 2
    m = draw(st.integers(1, prof["mmax"]))
    case = {"n": n, "fam": fam, "m": m}
    geo = draw(draw_geometry(n, kind, prof.get("place_full", True)))
    tags = list(geo["tags"])
    for k in ("lower", "upper", "scaling", "rhobeg", "x0"):
        case[k] = geo[k]
    if fam in ("lin", "sinlin", "hashed", "boxdomain", "hinge"):
        case["A"] = draw(draw_matrix(m, n))
        scale = 10.0 ** draw(st.integers(-1, 1))
        case["A"] = [[v * scale for v in row] for row in case["A"]]
        zero = draw(st.floats(0, 1)) < prof["zero_resid"]
        if zero:
            # zero-residual problem: b = A x* with x* inside the feasible region (or = x0: exit at the start)
            xs = list(case["x0"]) if draw(st.booleans()) else [dec(draw(g10) * geo["mag"]) for _ in range(n)]
            lo = case["lower"] or [-NOBOUND] * n
            up_ = case["upper"] or [NOBOUND] * n
            xs = [min(max(xs[i], lo[i]), up_[i]) for i in range(n)]
            case["b"] = (np.array(case["A"], dtype=float).dot(np.array(xs))).tolist()
            tags.append("zero-resid")
        else:
            case["b"] = [draw(g8) * scale * max(geo["mag"], 1.0) for _ in range(m)]
        if fam == "lin" and not zero and m > n and draw(st.floats(0, 1)) < prof.get("start_at_min", 0.06):
            # start at the (unconstrained) least-squares minimiser with a non-zero residual: no run can improve on x0, every
            # restart starts from the best point there is (clipped into the box by solve if it lies outside)
            xs = np.linalg.lstsq(np.array(case["A"], dtype=float), np.array(case["b"], dtype=float), rcond=None)[0]
            if np.all(np.isfinite(xs)) and float(np.max(np.abs(xs))) < 1e6:
                case["x0"] = [float(v) for v in xs]
                tags[:] = [t for t in tags if not t.startswith("x0:")] + ["start-at-minimiser"]
        if fam == "sinlin":
            case["gamma"] = draw(st.sampled_from([0.1, 0.5, 2.0]))
            case["omega"] = draw(st.sampled_from([1.0, 3.0])) / max(geo["mag"], 1e-2)
        if fam == "hashed":
            case["amp"] = draw(st.sampled_from([0.01, 0.3, 3.0]))
            case["prf_seed"] = draw(st.integers(0, 2 ** 20))
    elif fam == "big":
        case["m"] = draw(st.sampled_from([100, 120]))
    elif fam == "script":
        rows = draw(st.integers(1, 9))
        case["script"] = [[float(draw(st.integers(-3, 3))) for _ in range(m)] for _ in range(rows)]
        if draw(st.integers(0, 3)) == 0:
            sc = draw(st.sampled_from([1e-7, 1e-3, 1e3]))
            case["script"] = [[v * sc for v in row] for row in case["script"]]
    if prof["noise"] and fam not in ("script",) and draw(st.integers(0, 4)) == 0:
        case["noise"] = {"seed": draw(st.integers(0, 2 ** 20)), "mult": draw(st.sampled_from([0.0, 1e-3, 1e-1])),
                         "add": draw(st.sampled_from([0.0, 1e-6, 1e-2]))}
        tags.append("noisy")
    maxnpt = (n + 1) * (n + 2) // 2
    npt = n + 1
    if prof["npt_extra"] and draw(st.integers(0, 2)) == 0:
        npt = draw(st.integers(n + 1, min(2 * n + 1, maxnpt)))
    force_opt = None
    if prof.get("regression_bias") and maxnpt > n + 1 and draw(st.floats(0, 1)) < prof["regression_bias"]:
        npt = draw(st.integers(n + 2, min(2 * n + 1, maxnpt)))      # regression set + extra (geometry or momentum) steps
        force_opt = 2
    up, otags, mode = draw(draw_options(n, npt, prof, True, force_opt))
    tags += otags
    case["npt"] = npt
    rb = case["rhobeg"]
    rb_eff = rb if rb is not None else (0.1 if case["scaling"] else 0.1 * max(max(abs(v) for v in case["x0"]), 1.0))
    # ratios rhobeg/rhoend that are not powers of ten too (the radius-reduction rule switches regime at ratios 16 and 250)
    case["rhoend"] = rb_eff * 10.0 ** (-draw(st.sampled_from(prof["rhoend_exps"]))) * draw(st.sampled_from([1.0, 1.0, 1.0, 3.0, 0.3]))
    if not (case["rhoend"] < rb_eff):
        case["rhoend"] = rb_eff * 0.1
    mf = draw(st.sampled_from(prof["maxfuns"]))
    if isinstance(mf, str):
        mf = npt + {"npt-1": -1, "npt": 0, "npt+1": 1}[mf]
    case["maxfun"] = None if mf is None else max(1, int(mf))
    # exit-route recipes: budgets and thresholds that let a run end on one of the rarer documented routes (slow progress,
    # noise level, false successful steps, rho reaching rhoend) instead of the budget, which otherwise ends > 70% of all cases
    rbias = prof.get("route_bias", 0.12)
    if rbias and draw(st.floats(0, 1)) < rbias:
        recipe = draw(st.sampled_from(["slow", "slow", "noise-quit", "false-success", "rhoend"]))
        if recipe == "noise-quit" and not prof.get("noise_flag", True):
            recipe = "slow"
        if recipe == "slow":
            up["slow.max_slow_iters"] = draw(st.sampled_from([1, 2, 3]))
            up["slow.thresh_for_slow"] = draw(st.sampled_from([0.1, 1.0, 10.0]))
            up["slow.history_for_slow"] = draw(st.sampled_from([1, 2]))
        elif recipe == "noise-quit":
            up["noise.quit_on_noise_level"] = True
            up.pop("noise.additive_noise_level", None)
            up.pop("noise.multiplicative_noise_level", None)
            if draw(st.booleans()):
                up["noise.additive_noise_level"] = draw(st.sampled_from([1.0, 100.0])) * max(geo["mag"], 1.0)
            else:
                up["noise.multiplicative_noise_level"] = draw(st.sampled_from([0.5, 5.0]))
        elif recipe == "false-success":
            up["restarts.use_restarts"] = True
            up.pop("restarts.use_soft_restarts", None)
            up["restarts.soft.max_fake_successful_steps"] = draw(st.sampled_from([1, 2]))
            if "restarts:soft" not in tags:
                tags[:] = [t for t in tags if not t.startswith("restarts:")] + ["restarts:soft"]
        else:
            case["rhoend"] = rb_eff * 10.0 ** (-draw(st.sampled_from([1, 1, 2])))
        case["maxfun"] = draw(st.sampled_from([60, 150]))
        tags.append("recipe:" + recipe)
    if prof["avg"] and draw(st.floats(0, 1)) < prof.get("avg_prob", 0.25):
        kind_ns = draw(st.sampled_from(["const", "table", "rule"]))
        if kind_ns == "const":
            case["nsamples"] = {"const": draw(st.sampled_from([2, 3]))}
        elif kind_ns == "table":
            case["nsamples"] = {"table": [[draw(st.sampled_from([0, 1, 1, 2, 3])) for _ in range(3)] for _ in range(2)]}
        else:
            case["nsamples"] = {"rule": draw(st.sampled_from([[3, 1], [1, 2], [2, 3]]))}
        tags.append("averaging")
    if prof.get("noise_flag", True) and draw(st.integers(0, 3)) == 0:
        case["noise_flag"] = True
        tags.append("noise-flag")
    if prof["diag"] >= 1.0 or draw(st.floats(0, 1)) < prof["diag"]:
        up["logging.save_diagnostic_info"] = True
        up["logging.save_poisedness"] = draw(st.integers(0, 7)) == 0
    if prof["reg"] and draw(st.floats(0, 1)) < prof["reg"] and (not case["scaling"] or prof.get("reg_with_scaling")):
        case["reg"] = {"kind": draw(st.sampled_from(["l1", "l2"])), "lam": 10.0 ** draw(st.integers(-3, 0)),
                       "conv": draw(st.sampled_from(["closure", "args"]))}
        tags.append("regulariser")
        # S-FISTA sub-problems cost ~0.1 s per iteration: keep regularised runs short (budget in evaluations, not time)
        case["maxfun"] = min(case["maxfun"] or 20, prof.get("reg_maxfun", 20))
        # documented keys that keep regularised runs cheap: every iteration (with or without an evaluation) costs two
        # S-FISTA solves, and soft restarts can chain many evaluation-free iterations
        up["func_tol.max_iters"] = draw(st.sampled_from([10, 25, 50]))
        if up.get("restarts.use_restarts") or case.get("noise_flag"):
            up["restarts.max_unsuccessful_restarts"] = min(up.get("restarts.max_unsuccessful_restarts", 2), 2)
    case["up"] = up
    case["np_seed"] = draw(st.integers(0, 2 ** 16))
    case["tags"] = sorted(set(tags))
    if draw(st.floats(0, 1)) < prof.get("print_progress", 0.04):
        case["print_progress"] = True       # solve's own progress table (stdout is swallowed by the harness)
        case["tags"].append("print-progress")
    if prof.get("nolog") and draw(st.floats(0, 1)) < prof["nolog"]:
        case["do_logging"] = False          # only in checks whose oracles do not read the dfols log (C01, C04, C19, C20, C07 omnibus)
        case["tags"].append("no-logging")
    if prof.get("proj") and n >= 2 and draw(st.floats(0, 1)) < prof["proj"]:
        draw(attach_projections(case))
    return case


@st.composite
def draw_sets(draw, n, z, mag, kinds=("ball", "half", "box"), nmin=1, nmax=3, touching=False):
    """Convex sets built *around* the point z with a drawn margin: the intersection has non-empty interior by
    construction (no rejection)."""
    sets = []
    z = np.array(z, dtype=float)
    for _ in range(draw(st.integers(nmin, nmax))):
        kind = draw(st.sampled_from(list(kinds)))
        margin = mag * draw(st.sampled_from([0.05, 0.3, 1.0, 3.0] + ([0.0, 0.0, 0.0] if touching else [])))
        if margin == 0.0 and kind == "box":
            kind = "half"       # touching = the set's boundary passes through z (z stays in the set up to an ulp)
        if kind == "ball":
            off = np.array([draw(g8) / 4.0 * mag for _ in range(n)])
            if margin == 0.0 and not np.any(off):
                off[0] = mag
            c = z + off
            sets.append({"kind": "ball", "c": c.tolist(), "r": float(np.linalg.norm(z - c) * (1 + 4 * EPS) + margin)})
        elif kind == "half":
            a = np.array([draw(g8) for _ in range(n)])
            if not np.any(a):
                a[draw(st.integers(0, n - 1))] = 1.0
            sets.append({"kind": "half", "a": a.tolist(), "beta": float(a.dot(z) + margin * np.linalg.norm(a) + (4 * EPS * abs(a.dot(z)) if margin == 0.0 else 0.0))})
        elif kind == "box":
            lo = [float(z[i] - margin - abs(draw(g8)) * mag) for i in range(n)]
            up = [float(z[i] + margin + abs(draw(g8)) * mag) for i in range(n)]
            sets.append({"kind": "box", "l": lo, "u": up})
        else:
            raise HarnessError(kind)
    return sets


@st.composite
def attach_projections(draw, case, maxfun=25):
    """Turns a drawn scenario into a projection-constrained one (in place): 1-2 convex sets around the old starting point,
    no bounds / scaling / regulariser, and only the option families that the projected initialisation supports (DESIGN 3.4:
    npt > n+1 needs random initial directions; a reduced initial set is the known finding 'projections-npt' of C07)."""
    n = case["n"]
    z = [float(v) for v in case["x0"]]
    mag = max(1.0, max(abs(v) for v in z)) * 0.5
    case["proj"] = draw(draw_sets(n, z, mag, nmin=1, nmax=3, touching=True))
    case["scaling"] = False
    case["lower"] = case["upper"] = None
    case.pop("reg", None)
    up = case["up"]
    for k in [k for k in up if k.startswith("growing.") or k.startswith("func_tol.")]:
        up.pop(k)
    up.pop("restarts.hard.increase_ndirs_initial_amt", None)
    if case["npt"] > n + 1 or up.get("restarts.increase_npt"):
        up["init.random_initial_directions"] = True
        up.pop("init.run_in_parallel", None)
    start = draw(st.sampled_from(["z", "z", "moderate", "far"]))
    if start != "z":
        d = np.array([draw(g8) for _ in range(n)])
        if not np.any(d):
            d[0] = 1.0
        d = d / np.linalg.norm(d)
        case["x0"] = [float(v) for v in np.array(z) + d * mag * (1.0 if start == "moderate" else 10.0)]
    rb = 0.1 * max(max(abs(v) for v in case["x0"]), 1.0)
    case["rhobeg"] = rb
    case["rhoend"] = rb * 10.0 ** (-draw(st.sampled_from([2, 3, 5])))
    case["maxfun"] = min(case["maxfun"] or maxfun, maxfun)
    case["tags"] = sorted(set([t for t in case["tags"] if not t.startswith("x0:") and not t.startswith("growing") and t != "regulariser"
                               and t != "rhobeg=gap/2"] + ["projections", "proj-x0:" + start]))
    return case


def deterministic(case):
    return case["fam"] != "script" and not case.get("noise")


def user_bounds(case):
    n = case["n"]
    lo = np.array(case["lower"], dtype=float) if case.get("lower") is not None else np.full(n, -np.inf)
    up = np.array(case["upper"], dtype=float) if case.get("upper") is not None else np.full(n, np.inf)
    return lo, up


def objective_of(case, x, r):
    """sum(r^2) + h(x) recomputed by the harness."""
    return float(np.dot(r, r)) + reg_value(case, np.asarray(x, dtype=float))


def budget_enumeration(case, judge, res, iter_hook_factory=None, cap=60):
    """Re-runs the scenario with maxfun = 1 .. nf (nf = evaluations of its own run, capped) and applies judge(case_k, obs_k, sub)
    to each: every place at which the budget can run out is visited, exhaustively inside the scenario. Failures are prefixed with
    the budget. Returns (nf, reference observation)."""
    from .core import CaseResult
    base = {k: v for k, v in case.items() if k != "enum_budgets"}
    ref = run_solve(base)
    if ref.soln is None or not ref.calls:
        res.count("reference-run-unusable")
        return 0, ref
    nf = min(len(ref.calls), cap)
    for k in range(1, nf + 1):
        c2 = dict(base)
        c2["maxfun"] = k
        o = run_solve(c2, iter_hook=iter_hook_factory(c2) if iter_hook_factory else None)
        sub = CaseResult()
        for clause, detail in o.iter_fail:
            sub.fail(clause, detail)
        judge(c2, o, sub)
        res.count("budget-runs")
        for clause, detail in sub.failures:
            res.fail(clause, "[maxfun=%d of %d] %s" % (k, nf, detail))
        if res.failures:
            break
    return nf, ref
