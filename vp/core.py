"""Shared plumbing: errors, case results, profiles, known findings, replay files."""
import os, sys, json, hashlib, signal, math

VERIF = os.path.dirname(os.path.dirname(os.path.abspath(__file__)))
REPO = os.environ.get("VERIF_REPO", "/repo")
KNOWN_FILE = os.path.join(VERIF, "known_findings.txt")


class HarnessError(Exception):
    """Something is wrong with the harness or its assumptions about dfols internals (exit 2)."""


class CaseTimeout(BaseException):
    """Per-case wall-clock safety net fired: the case is inconclusive, never a verdict."""


class Livelock(Exception):
    """Deterministic non-termination verdict: too many main-loop iterations without one evaluation."""


def import_dfols():
    """Import dfols from the tree under test and make sure that is really where it came from."""
    if sys.path[0] != REPO:
        sys.path.insert(0, REPO)
    import dfols
    here = os.path.realpath(os.path.dirname(dfols.__file__))
    want = os.path.realpath(os.path.join(REPO, "dfols"))
    if here != want:
        raise HarnessError("dfols imported from %s, expected %s" % (here, want))
    return dfols


class CaseResult(object):
    __slots__ = ("failures", "classes", "nontrivial", "margins", "sample", "counts")

    def __init__(self):
        self.failures = []      # list of (clause_id, detail)
        self.classes = []       # labels for the class histogram
        self.nontrivial = False
        self.margins = {}       # clause_id -> observed / tolerance (max is kept)
        self.sample = None      # compact description for evidence samples (default: the case)
        self.counts = {}        # extra counters to be summed into the evidence

    def fail(self, clause, detail=""):
        self.failures.append((clause, str(detail)[:400]))

    def margin(self, clause, ratio):
        try:
            r = float(ratio)
        except Exception:
            return
        if r != r:
            r = float("inf")
        if r > self.margins.get(clause, 0.0):
            self.margins[clause] = r

    def check(self, clause, observed, tol, detail=""):
        """Numeric clause: holds iff observed <= tol; records the margin observed/tol."""
        if tol > 0:
            self.margin(clause, observed / tol)
        if not (observed <= tol):
            self.fail(clause, "%s observed=%r tol=%r" % (detail, observed, tol))
            return False
        return True

    def count(self, key, k=1):
        self.counts[key] = self.counts.get(key, 0) + k


class Profile(object):
    """One generated-search campaign of a property: strategy + executable oracle + budgets."""

    def __init__(self, name, strategy, run, quick, thorough, timeout=120, shards=16, stateful=None, enumerate=None, fuzz=None):
        self.name = name
        self.strategy = strategy     # callable returning a Hypothesis strategy of JSON-able cases
        self.run = run               # case -> CaseResult
        self.quick = quick           # number of examples, quick tier (total over shards)
        self.thorough = thorough
        self.timeout = timeout       # per-case wall clock safety net (s)
        self.shards = shards
        self.stateful = stateful     # optional: callable(seed, n, stats) running a state machine itself
        self.enumerate = enumerate   # optional: callable(tier) -> list of cases executed exhaustively (no sampling)
        self.fuzz = fuzz             # optional: (quick, thorough) libFuzzer executions per shard for an atheris campaign


def case_hash(case):
    s = json.dumps(case, sort_keys=True, default=str)
    return int.from_bytes(hashlib.sha1(s.encode()).digest()[:8], "big")


def hash32(*parts):
    s = "|".join(str(p) for p in parts)
    return int.from_bytes(hashlib.sha1(s.encode()).digest()[:4], "big")


# ----------------------------------------------------------------------------------------------
# known findings
# ----------------------------------------------------------------------------------------------
class KnownEntry(object):
    def __init__(self, kind, prop, fields, text):
        self.kind = kind            # 'known' | 'fixed'
        self.prop = prop
        self.fields = fields
        self.text = text
        self.key = fields.get("key")
        self.clause = fields.get("clause")
        self.replay = fields.get("replay")


def load_known(prop=None):
    out = []
    if not os.path.exists(KNOWN_FILE):
        return out
    for line in open(KNOWN_FILE):
        line = line.strip()
        if not line or line.startswith("#"):
            continue
        kind, _, rest = line.partition(":")
        kind = kind.strip()
        if kind not in ("known", "fixed"):
            continue
        head, _, text = rest.partition("::")
        fields = {}
        for tok in head.split():
            if "=" in tok:
                k, _, v = tok.partition("=")
                fields[k] = v
        p = fields.get("property")
        if prop is None or p == prop:
            out.append(KnownEntry(kind, p, fields, (text or head).strip()))
    return out


# ----------------------------------------------------------------------------------------------
# replay files
# ----------------------------------------------------------------------------------------------
def write_replay(path, prop, profile, case, failures, found_by):
    os.makedirs(os.path.dirname(path), exist_ok=True)
    doc = {"property": prop, "profile": profile,
           "clauses": sorted(set(c for c, _ in failures)),
           "details": [d for _, d in failures][:5],
           "found_by": found_by, "case": case}
    with open(path, "w") as f:
        json.dump(doc, f, indent=1, sort_keys=True, default=str)
        f.write("\n")
    return path


def read_replay(path):
    with open(path) as f:
        return json.load(f)


# ----------------------------------------------------------------------------------------------
# per-case wall clock safety net
# ----------------------------------------------------------------------------------------------
def _alarm(signum, frame):
    raise CaseTimeout()


def run_with_timeout(fn, case, seconds):
    if seconds and hasattr(signal, "SIGALRM"):
        old = signal.signal(signal.SIGALRM, _alarm)
        signal.alarm(int(max(1, seconds)))
        try:
            return fn(case)
        finally:
            signal.alarm(0)
            signal.signal(signal.SIGALRM, old)
    return fn(case)


def finite(x):
    try:
        return math.isfinite(x)
    except Exception:
        return False
