"""Clause evaluators shared by the solve-level properties. Each takes (case, obs, res) and records failures /
margins on the CaseResult; none of them looks at dfols internals, only at the Observation."""
import math
import numpy as np

from .scenario import EPS, user_bounds, deterministic, reg_value, objective_of


def route(o):
    """Coarse exit route of a run, for class histograms."""
    if o.livelock:
        return "livelock"
    if o.exc is not None:
        return "exception:" + type(o.exc).__name__
    s = o.soln
    msg = s.msg or ""
    table = [("sufficiently small", "success-small"), ("rho has reached rhoend", "success-rhoend"),
             ("noise level", "success-noise"), ("unsuccessful restarts", "success-max-restarts"),
             ("(max evals)", "budget"), ("slow progress", "slow"), ("false good", "false-success"),
             ("Warning (trust region increase)", "tr-increase-warning"), ("Error (trust region increase)", "tr-increase-error"),
             ("linear algebra", "linalg"), ("function evaluation", "eval-error"), ("bad input", "input-error")]
    for key, name in table:
        if key in msg:
            return name
    return "flag%s" % s.flag


def point_groups(o):
    """point number -> list of call indices (0-based), or None when the log does not line up with the calls."""
    ncalls = len([c for c in o.calls if c[1] is not None])
    if len(o.evlog) != ncalls:
        return None
    groups = {}
    for i, (_, p) in enumerate(o.evlog):
        groups.setdefault(p, []).append(i)
    return groups


# ------------------------------------------------------------------------------------------------ C01
def c01(case, o, res, prefix="C01"):
    lo, up = user_bounds(case)
    worst = 0.0
    near = False
    for x, _ in o.calls:
        below = lo - x
        above = x - up
        v = max(float(np.max(below)), float(np.max(above)))
        if v > 0:
            worst = max(worst, v)
        if not near:
            fin_l = np.isfinite(lo) & (np.abs(lo) < 1e19)
            fin_u = np.isfinite(up) & (np.abs(up) < 1e19)
            if np.any(fin_l) and np.any(np.abs(x[fin_l] - lo[fin_l]) <= 4 * np.spacing(np.abs(lo[fin_l]))):
                near = True
            elif np.any(fin_u) and np.any(np.abs(x[fin_u] - up[fin_u]) <= 4 * np.spacing(np.abs(up[fin_u]))):
                near = True
    if worst > 0:
        res.fail(prefix + ".eval_in_box", "an evaluation point is outside the bounds by %r" % worst)
    if o.soln is not None and o.soln.x is not None:
        x = np.asarray(o.soln.x, dtype=float)
        v = max(float(np.max(lo - x)), float(np.max(x - up)))
        if v > 0:
            res.fail(prefix + ".soln_in_box", "soln.x is outside the bounds by %r" % v)
    return near


# ------------------------------------------------------------------------------------------------ C02
def c02(case, o, res, prefix="C02"):
    s = o.soln
    ncalls = len(o.calls)
    maxfun = case["maxfun"] if case.get("maxfun") is not None else min(100 * (case["n"] + 1), 1000)
    if ncalls > maxfun:
        res.fail(prefix + ".budget", "%d calls with maxfun=%d" % (ncalls, maxfun))
    if s is None or s.flag == s.EXIT_INPUT_ERROR:
        return
    if s.nf != ncalls:
        res.fail(prefix + ".nf", "soln.nf=%r but %d calls were made" % (s.nf, ncalls))
    raised = any(c[1] is None for c in o.calls)
    ev = o.evlog
    if not raised:
        if [e for e, _ in ev] != list(range(1, ncalls + 1)):
            res.fail(prefix + ".eval_numbers", "logged evaluation numbers %r..., %d calls" % ([e for e, _ in ev][:8], ncalls))
            return
        pts = [p for _, p in ev]
        if pts:
            if pts[0] != 1 or any(pts[i + 1] - pts[i] not in (0, 1) for i in range(len(pts) - 1)):
                res.fail(prefix + ".point_numbers", "logged point numbers %r" % (pts[:12],))
                return
            for i in range(1, len(pts)):
                if pts[i] == pts[i - 1] and not np.array_equal(o.calls[i][0], o.calls[i - 1][0]):
                    res.fail(prefix + ".same_point_same_x", "calls %d and %d share point %d but x differs" % (i, i + 1, pts[i]))
                    break
            if s.nx != pts[-1]:
                res.fail(prefix + ".nx", "soln.nx=%r, last point number %d" % (s.nx, pts[-1]))
            if not case.get("nsamples") and s.nx != s.nf:
                res.fail(prefix + ".nx_eq_nf", "no averaging but nx=%r nf=%r" % (s.nx, s.nf))
            # samples per point
            firsts = {}
            for i, p in enumerate(pts):
                firsts.setdefault(p, i)
            counts = {}
            for p in pts:
                counts[p] = counts.get(p, 0) + 1
            order = sorted(counts)
            exhausted = ncalls >= maxfun
            for idx, p in enumerate(order):
                start_prev = firsts[order[idx - 1]] if idx > 0 else -1
                first = firsts[p]
                # values the callback returned after the previous point's first evaluation and before this point's first
                window = [v for (pos, _, v) in o.ns_calls if start_prev < pos <= first] if idx > 0 else \
                         [v for (pos, _, v) in o.ns_calls if pos <= first]
                if case.get("nsamples"):
                    if not window:
                        before = [v for (pos, _, v) in o.ns_calls if pos <= first]
                        window = before[-1:]
                    allowed = set(max(int(v), 1) for v in window)
                else:
                    allowed = {1}
                c = counts[p]
                if c in allowed:
                    continue
                if exhausted and idx == len(order) - 1 and allowed and c < max(allowed):
                    continue   # the budget ran out in the middle of this point
                res.fail(prefix + ".samples", "point %d got %d samples, callback asked for %s" % (p, c, sorted(allowed)))
                break


# ------------------------------------------------------------------------------------------------ C03
def nan_equal_close(a, b, tol):
    a = np.asarray(a, dtype=float)
    b = np.asarray(b, dtype=float)
    if a.shape != b.shape:
        return False, float("inf")
    same_nan = np.isnan(a) == np.isnan(b)
    if not np.all(same_nan):
        return False, float("inf")
    inf_a = np.isinf(a)
    if np.any(inf_a != np.isinf(b)) or np.any(a[inf_a] != b[inf_a]):
        return False, float("inf")
    fin = np.isfinite(a)
    if not np.any(fin):
        return True, 0.0
    d = float(np.max(np.abs(a[fin] - b[fin])))
    return d <= tol, d


def c03(case, o, res, prefix="C03"):
    s = o.soln
    if s is None or s.flag == s.EXIT_INPUT_ERROR:
        return
    groups = point_groups(o)
    if groups is None:
        res.count("c03-unlocatable")
        return
    k = s.xmin_eval_num
    try:
        k = int(k)
    except Exception:
        res.fail(prefix + ".evalnum_range", "xmin_eval_num=%r" % (k,))
        return
    if not (1 <= k <= s.nx) or k not in groups:
        res.fail(prefix + ".evalnum_range", "xmin_eval_num=%r, nx=%r" % (k, s.nx))
        return
    idx = groups[k]
    xr = o.calls[idx[0]][0]
    lo, up = user_bounds(case)
    mags = [1.0] + [float(np.max(np.abs(c[0]))) for c in o.calls]
    for v in (lo, up):
        f = np.isfinite(v) & (np.abs(v) < 1e19)
        if np.any(f):
            mags.append(float(np.max(np.abs(v[f]))))
    scale = max(mags)
    tol = (8 + 2 * o.nshifts) * EPS * scale
    if case.get("scaling"):
        tol *= 1.0 + float(np.max(up - lo))
    ok, d = nan_equal_close(s.x, xr, tol)
    res.margin(prefix + ".x", d / tol if tol > 0 else 0.0)
    if not ok:
        res.fail(prefix + ".x", "soln.x differs from the x of evaluation point %d by %r (tol %r)" % (k, d, tol))
    rs = np.array([o.calls[i][1] for i in idx], dtype=float)
    with np.errstate(all="ignore"):
        rm = np.mean(rs, axis=0)
        rmax = float(np.max(np.abs(rs[np.isfinite(rs)]))) if np.any(np.isfinite(rs)) else 0.0
    tolr = 8 * EPS * max(rmax, 1e-300) * len(idx)
    okr, dr = nan_equal_close(s.resid, rm, tolr)
    res.margin(prefix + ".resid", dr / tolr)
    if not okr:
        res.fail(prefix + ".resid", "soln.resid differs from the mean of the %d residual vectors at point %d by %r (tol %r)"
                 % (len(idx), k, dr, tolr))
    with np.errstate(all="ignore"):
        f = float(np.dot(s.resid, s.resid))
        hval = reg_value(case, s.x)
        ref = f + hval
    obj = float(s.obj)
    if math.isnan(ref) or math.isinf(ref):
        if not ((math.isnan(ref) and math.isnan(obj)) or ref == obj):
            res.fail(prefix + ".obj", "soln.obj=%r but sum(resid^2)+h=%r" % (obj, ref))
    else:
        tolo = 16 * EPS * (f + abs(hval)) + 1e-300
        if case.get("reg") and o.nshifts:
            # soln.x is known only to the rounding of the base-point arithmetic (C03.x); h is Lipschitz, so h(soln.x)
            # is known to lam*n times that rounding. Zero without base shifts.
            tolo += float(case["reg"]["lam"]) * case["n"] * (2 * o.nshifts) * EPS * scale
        res.margin(prefix + ".obj", abs(obj - ref) / tolo)
        if not (abs(obj - ref) <= tolo):
            res.fail(prefix + ".obj", "soln.obj=%r but sum(resid^2)+h(x)=%r (tol %r)" % (obj, ref, tolo))


# ------------------------------------------------------------------------------------------------ C04
def c04(case, o, res, prefix="C04"):
    s = o.soln
    if s is None or s.flag == s.EXIT_INPUT_ERROR or not o.calls:
        return None
    vals = []
    for x, r in o.calls:
        if r is None:
            continue
        with np.errstate(all="ignore"):
            vals.append(objective_of(case, x, r))
    fin = [v for v in vals if math.isfinite(v)]
    if not fin or (len(fin) != len(vals) and not case.get("nan_half")):
        return None
    if len(fin) != len(vals):
        # objective undefined (NaN) on part of the space, finite at x0: the statement's comparison is with every value there is
        res.classes.append("nan-region-visited")
        if not math.isfinite(vals[0]):
            return None
        vals = [v if math.isfinite(v) else float("inf") for v in vals]
    best = min(fin)
    obj = float(s.obj)
    if not (obj <= best * (1 + 4 * EPS) + 1e-300):
        res.fail(prefix + ".best", "soln.obj=%r but evaluation %d had objective %r" % (obj, vals.index(best) + 1, best))
    if not (obj <= vals[0] * (1 + 4 * EPS) + 1e-300):
        res.fail(prefix + ".x0", "soln.obj=%r > f(first evaluation)=%r" % (obj, vals[0]))
    for (_, objrun, _) in o.main_returns:
        if objrun is not None and math.isfinite(objrun) and not (obj <= objrun * (1 + 4 * EPS) + 1e-300):
            res.fail(prefix + ".runs", "soln.obj=%r is worse than the result %r of one of the runs" % (obj, objrun))
            break
    return vals


# ------------------------------------------------------------------------------------------------ C10
def c10(case, o, res, prefix="C10"):
    s = o.soln
    if s is None or s.flag == s.EXIT_INPUT_ERROR:
        return
    up = case.get("up") or {}
    msg = s.msg
    ncalls = len(o.calls)
    maxfun = case["maxfun"] if case.get("maxfun") is not None else min(100 * (case["n"] + 1), 1000)
    groups = point_groups(o)
    if s.flag == s.EXIT_SUCCESS and "sufficiently small" in msg and groups is not None and 1 in groups:
        res.classes.append("ante:small")
        with np.errstate(all="ignore"):
            r0 = np.mean(np.array([o.calls[i][1] for i in groups[1]], dtype=float), axis=0)
            f0 = objective_of(case, o.calls[0][0], r0)
        # a hard restart that re-evaluates its start point (restarts.hard.use_old_rk=False) measures f(x0) afresh for its own
        # relative test; with a noisy objective that value can exceed the first one (thorough tier, seed 1: a false alarm of the
        # first version, which assumed later runs can only be stricter). f(x0) = the largest start value of any run.
        if up.get("restarts.hard.use_old_rk", True) is False and len(o.main_calls) > 1:
            for start in o.main_calls[1:]:
                if start < len(o.evlog):
                    idx = groups.get(o.evlog[start][1], [])
                    if idx:
                        with np.errstate(all="ignore"):
                            rj = np.mean(np.array([o.calls[i][1] for i in idx], dtype=float), axis=0)
                            fj = objective_of(case, o.calls[idx[0]][0], rj)
                        if math.isfinite(fj):
                            f0 = max(f0, fj)
        thr = max(up.get("model.abs_tol", 1e-12), up.get("model.rel_tol", 1e-20) * f0) if math.isfinite(f0) else float("inf")
        nsmax = max([1] + [len(g) for g in groups.values()])
        if not (float(s.obj) <= thr * (1 + 16 * EPS * nsmax)):
            res.fail(prefix + ".small", "'sufficiently small' but obj=%r > max(abs_tol, rel_tol*f(x0))=%r" % (s.obj, thr))
    if s.flag == s.EXIT_SUCCESS and "rho has reached rhoend" in msg:
        res.classes.append("ante:rhoend")
        df = s.diagnostic_info
        if df is not None and len(df):
            sc = up.get("restarts.rhoend_scale", 1.0)
            want = case["rhoend"] * sc ** int(df["nruns"].values[-1])
            got = float(df["rho"].values[-1])
            res.margin(prefix + ".rhoend", abs(got - want) / (1e-12 * want))
            if not (abs(got - want) <= 1e-12 * want):
                res.fail(prefix + ".rhoend", "'rho has reached rhoend' but last rho=%r, rhoend for that run=%r" % (got, want))
    if s.flag == s.EXIT_MAXFUN_WARNING:
        res.classes.append("ante:maxfun")
        if ncalls != maxfun:
            res.fail(prefix + ".maxfun", "max-evals warning with %d calls, maxfun=%d" % (ncalls, maxfun))
    restarts = max(len(o.main_calls) - 1, 0) + len(o.soft_restarts)
    if "unsuccessful restarts" in msg:
        res.classes.append("ante:max-restarts")
        R = up.get("restarts.max_unsuccessful_restarts", 10)
        if not (1 + restarts >= R):
            res.fail(prefix + ".max_restarts", "message claims %d unsuccessful restarts but only %d runs" % (R, 1 + restarts))
    if restarts > 0:
        res.classes.append("ante:restarted")
    if s.nruns != 1 + restarts:
        res.fail(prefix + ".nruns", "soln.nruns=%r but %d restarts were performed" % (s.nruns, restarts))
    if s.flag == s.EXIT_SUCCESS:
        if not math.isfinite(float(s.obj)):
            res.fail(prefix + ".finite_success", "success flag with objective %r" % (s.obj,))


# ------------------------------------------------------------------------------------------------ every-iteration forms
def iteration_hook(case, check_c03=True, check_c04=True):
    """Returns a hook(o, model) called once per main-loop iteration (from the wrapper of the model's fitting method).
    It looks at the live model read-only and appends (clause, detail) to o.iter_fail - at most one per clause."""
    from dfols.util import remove_scaling
    state = {"ncalls": 0, "best": float("inf"), "nonfinite": False, "seen": set()}
    det = deterministic(case) and not case.get("nsamples")

    def fail(o, clause, detail):
        if clause not in state["seen"]:
            state["seen"].add(clause)
            o.iter_fail.append((clause, detail))

    def hook(o, mdl):
        # running minimum of the recomputed objective over the calls made so far
        while state["ncalls"] < len(o.calls):
            x, r = o.calls[state["ncalls"]]
            state["ncalls"] += 1
            if r is None:
                state["nonfinite"] = True
                continue
            with np.errstate(all="ignore"):
                v = objective_of(case, x, r)
            if math.isfinite(v):
                state["best"] = min(state["best"], v)
            elif not case.get("nan_half"):
                state["nonfinite"] = True
        if check_c04 and det and not state["nonfinite"] and state["ncalls"] > 0:
            cur = float(mdl.objopt())
            if mdl.objsave is not None and (mdl.objsave < cur or math.isnan(cur)):      # a NaN incumbent ranks below any saved value
                cur = float(mdl.objsave)
            if not (cur <= state["best"] * (1 + 4 * EPS) + 1e-300):
                fail(o, "C04.iter_best", "iteration %d: best value held by the model (incumbent/saved) is %r but an evaluated point had %r"
                     % (o.nfits, cur, state["best"]))
        if check_c03 and len(o.evlog) == len(o.calls) and not state["nonfinite"]:
            groups = {}
            for i, (_, p) in enumerate(o.evlog):
                groups.setdefault(p, []).append(i)
            mags = [1.0] + [float(np.max(np.abs(c[0]))) for c in o.calls]
            tol = (8 + 2 * o.nshifts) * EPS * max(mags)
            if case.get("scaling"):
                lo, up = user_bounds(case)
                tol *= 1.0 + float(np.max(up - lo))
            for k in range(mdl.npt()):
                en = int(mdl.eval_num[k])
                if en not in groups:
                    fail(o, "C03.iter_label", "iteration %d: interpolation point %d carries evaluation number %d, which does not exist (nx=%d)"
                         % (o.nfits, k, en, len(groups)))
                    continue
                idx = groups[en]
                # with projections the absolute position of a stored point is *recomputed* by the projection routine each time
                # it is asked for (see the known finding 'reprojected-solution' of C03): positions are not compared there
                xk = o.calls[idx[0]][0] if case.get("proj") else remove_scaling(mdl.xpt(k, abs_coordinates=True), mdl.scaling_changes)
                if float(np.max(np.abs(xk - o.calls[idx[0]][0]))) > tol:
                    fail(o, "C03.iter_label", "iteration %d: interpolation point %d is labelled evaluation point %d but x differs by %r"
                         % (o.nfits, k, en, float(np.max(np.abs(xk - o.calls[idx[0]][0])))))
                    continue
                ns = int(mdl.nsamples[k])
                if ns > len(idx) or ns < 1:
                    fail(o, "C03.iter_samples", "iteration %d: point %d claims %d samples, %d calls were made there" % (o.nfits, k, ns, len(idx)))
                    continue
                rs = np.array([o.calls[i][1] for i in idx[:ns]], dtype=float)
                rm = np.mean(rs, axis=0)
                rmax = float(np.max(np.abs(rs))) if rs.size else 0.0
                if float(np.max(np.abs(mdl.fval_v[k, :] - rm))) > 8 * EPS * max(rmax, 1e-300) * ns:
                    fail(o, "C03.iter_resid", "iteration %d: stored residual of point %d (evaluation point %d) is not the mean of its %d samples"
                         % (o.nfits, k, en, ns))
    return hook
