import numpy as np, dfols, warnings, sys
warnings.simplefilter('ignore')
rng = np.random.default_rng(int(sys.argv[1]) if len(sys.argv)>1 else 0)
N = int(sys.argv[2]) if len(sys.argv)>2 else 300
viol=0; tot=0; kinds={}
for t in range(N):
    n = int(rng.integers(1,5)); m=int(rng.integers(1,6))
    A = rng.normal(size=(m,n)); b=rng.normal(size=m); c = rng.normal(size=m)*rng.choice([0,0.3])
    scale = 10.0**rng.integers(-2,3)
    xl = rng.normal(size=n)*scale; xu = xl + scale*(0.5+rng.random(n)*3)
    x0 = xl + (xu-xl)*rng.random(n)
    # sometimes put on bound or outside
    for i in range(n):
        r = rng.random()
        if r<0.15: x0[i]=xl[i]
        elif r<0.3: x0[i]=xu[i]
        elif r<0.4: x0[i]=xl[i]-scale*rng.random()
        elif r<0.5: x0[i]=np.nextafter(xu[i], -np.inf)
    rec=[]
    def f(x):
        rec.append(x.copy())
        r = A@x-b
        return r + c*np.sin(x.sum())
    scaling = True
    rhobeg = (0.1 if scaling else 0.1*scale)*rng.choice([0.1,1.0,2.0])
    gap = np.min(xu-xl) if not scaling else 1.0
    if gap < 2*rhobeg: rhobeg = gap/2.5
    npt = int(rng.integers(n+1, 2*n+2))
    try:
        s = dfols.solve(f, x0, bounds=(xl,xu), rhobeg=rhobeg, rhoend=rhobeg*1e-6, npt=npt, maxfun=80, scaling_within_bounds=scaling, do_logging=False)
    except Exception as e:
        kinds[type(e).__name__+str(e)[:60]] = kinds.get(type(e).__name__+str(e)[:60],0)+1
        continue
    tot+=1
    bad = [ (k,i, x[i]-xl[i] if x[i]<xl[i] else x[i]-xu[i]) for k,x in enumerate(rec) for i in range(n) if x[i]<xl[i] or x[i]>xu[i]]
    if s.x is not None:
        for i in range(n):
            if s.x[i]<xl[i] or s.x[i]>xu[i]: bad.append(('soln',i,0))
    if bad:
        viol+=1
        if viol<6: print(t, 'scaling',scaling,'n',n,'npt',npt, bad[:3], len(rec))
print('runs',tot,'viol',viol, kinds)
