import numpy as np, dfols, warnings, sys, signal, hashlib, struct
warnings.simplefilter('ignore')
from collections import Counter
from dfols.util import pball
class TO(Exception): pass
def _h(s,f): raise TO()
signal.signal(signal.SIGALRM,_h)
rng = np.random.default_rng(int(sys.argv[1]) if len(sys.argv)>1 else 0)
N = int(sys.argv[2]) if len(sys.argv)>2 else 300
flags=Counter(); issues=Counter()
def prf(seed,x,m):
    hsh=hashlib.blake2b(x.tobytes(),digest_size=8*m,key=struct.pack('<Q',seed)).digest()
    return 2*np.frombuffer(hsh,dtype=np.uint64).astype(float)/2**64-1
for t in range(N):
    n = int(rng.integers(1,5)); m=int(rng.integers(1,6))
    A = rng.normal(size=(m,n)); b=rng.normal(size=m); amp=float(rng.choice([0,1e-6,1e-3,0.3]))
    mult=bool(rng.random()<0.5)
    cnt=[0]
    def f(x):
        cnt[0]+=1
        r=A@x-b+0.5*np.sin(3*x.sum()+np.arange(m))
        return r*(1+amp*prf(t,x,m)) if mult else r+amp*prf(t,x,m)
    x0 = rng.normal(size=n)
    maxfun = int(rng.choice([30,100,300,1000]))
    up = {}
    mode = str(rng.choice(['none','soft','hard']))
    if mode!='none':
        up['restarts.use_restarts']=True
        if mode=='hard': up['restarts.use_soft_restarts']=False
        if rng.random()<0.5: up['restarts.auto_detect.history']=int(rng.choice([3,5,10]))
        if rng.random()<0.5: up['restarts.max_unsuccessful_restarts']=int(rng.choice([1,2,3]))
        if rng.random()<0.3: up['restarts.soft.max_fake_successful_steps']=int(rng.choice([1,2,5]))
    if rng.random()<0.5: up['slow.max_slow_iters']=int(rng.choice([1,2,5])); up['slow.thresh_for_slow']=float(rng.choice([1e-4,1e-1,1.0]))
    kw={}
    c=rng.choice(['unc','box','proj2'])
    if c=='box': kw['bounds']=(x0-0.3-rng.random(n), x0+0.3+rng.random(n))
    if c=='proj2' and n>1:
        ce=x0+0.3*rng.normal(size=n); a=rng.normal(size=n); a/=np.linalg.norm(a); beta=a@ce
        kw['projections']=[lambda x,ce=ce: pball(x,ce,1.0), lambda x,a=a,beta=beta: x-max(0,a@x-beta)*a]
    elif rng.random()<0.3: kw['npt']=min(2*n+1,(n+1)*(n+2)//2)
    if rng.random()<0.3: kw['objfun_has_noise']=True
    signal.alarm(20)
    try:
        s = dfols.solve(f, x0, maxfun=maxfun, rhoend=float(rng.choice([1e-8,1e-4])), user_params=up, **kw); signal.alarm(0)
    except TO: issues[('TIMEOUT',mode)]+=1; continue
    except Exception as e:
        signal.alarm(0); issues[('EXC',mode,type(e).__name__,str(e)[:70])]+=1; continue
    flags[(s.flag, s.msg[:70])]+=1
for k,v in sorted(issues.items(), key=str): print(k,v)
for k,v in sorted(flags.items(), key=str): print(k,v)
