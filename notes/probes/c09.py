import numpy as np, dfols, warnings, sys
import dfols.model, dfols.controller, dfols.solver, dfols.trust_region, dfols.util
warnings.simplefilter('ignore')
from collections import Counter
from dfols.util import pball, pbox
real_dykstra = dfols.util.dykstra
LOG=[]
def wrapped(P, x0, max_iter=100, tol=1e-10):
    st={'cnt':0,'last':x0.copy(),'cI':0.0,'sweeps':[]}
    def wrap(i,Pi):
        def w(v):
            out=Pi(v)
            if i==0:
                if st['cnt']>0: st['sweeps'].append(st['cI'])
                st['cI']=0.0; st['cnt']+=1
            st['cI']+=np.linalg.norm(out-st['last'])**2; st['last']=out.copy(); return out
        return w
    x=real_dykstra([wrap(i,Pi) for i,Pi in enumerate(P)], x0, max_iter=max_iter, tol=tol)
    st['sweeps'].append(st['cI'])
    LOG.append((x.copy(), st['sweeps'][-1]<tol, st['cnt'], tol, len(P)))
    return x
for mod in (dfols.model, dfols.controller, dfols.solver, dfols.trust_region):
    mod.dykstra = wrapped
rng = np.random.default_rng(int(sys.argv[1]) if len(sys.argv)>1 else 0)
N = int(sys.argv[2]) if len(sys.argv)>2 else 100
issues=Counter(); stats=Counter(); flags=Counter()
for t in range(N):
    n=int(rng.integers(2,5)); m=int(rng.integers(1,5))
    A=rng.normal(size=(m,n)); b=rng.normal(size=m)
    z=rng.normal(size=n); margin=0.2+rng.random()
    sets=[]; dist=[]
    for _ in range(int(rng.integers(1,4))):
        k=rng.choice(['ball','half','box'])
        if k=='ball':
            r=margin+0.5+rng.random()*2; c=z+rng.normal(size=n); c=z+(c-z)/np.linalg.norm(c-z)*rng.random()*(r-margin)
            sets.append(lambda x,c=c,r=r: pball(x,c,r)); dist.append(lambda x,c=c,r=r: max(0,np.linalg.norm(x-c)-r))
        elif k=='half':
            a=rng.normal(size=n); a/=np.linalg.norm(a); beta=a@z+margin+rng.random()
            sets.append(lambda x,a=a,beta=beta: x-max(0,a@x-beta)*a); dist.append(lambda x,a=a,beta=beta: max(0,a@x-beta))
        else:
            l=z-margin-rng.random(n)*2; u=z+margin+rng.random(n)*2
            sets.append(lambda x,l=l,u=u: pbox(x,l,u)); dist.append(lambda x,l=l,u=u: np.linalg.norm(x-np.clip(x,l,u)))
    kw={}
    xl=xu=None
    if rng.random()<0.5:
        xl=z-margin-rng.random(n)*2; xu=z+margin+rng.random(n)*2; kw['bounds']=(xl,xu)
        dist.append(lambda x,l=xl,u=xu: np.linalg.norm(x-np.clip(x,l,u)))
    x0 = z+rng.normal(size=n)*rng.choice([0.1,3.0])
    rec=[]
    def f(x): rec.append(x.copy()); return A@x-b+0.3*np.sin(x.sum())
    up={}
    if rng.random()<0.4: up['restarts.use_restarts']=True
    LOG.clear()
    try: s=dfols.solve(f,x0,projections=sets,maxfun=60,rhobeg=min(0.3,margin/2),user_params=up,**kw)
    except Exception as e: issues[('EXC',type(e).__name__,str(e)[:60])]+=1; continue
    flags[(s.flag,s.msg[:40])]+=1
    p=len(sets)+1
    outs={x.tobytes():(ok,cnt,tol,pp) for x,ok,cnt,tol,pp in LOG}
    for k,x in enumerate(rec):
        key=x.tobytes()
        if key not in outs:
            issues[('eval not a dykstra output', k==0)]+=1; continue
        ok,cnt,tol,pp=outs[key]
        stats['rule' if ok else 'cap']+=1
        dmax=max(d(x) for d in dist)
        if ok and dmax>np.sqrt(pp*tol): issues['feas bound']+=1
        if xl is not None and (np.any(x<xl) or np.any(x>xu)): issues['box not exact']+=1
        if not ok: stats[('cap dist>1e-5', dmax>1e-5)]+=1
for k,v in sorted(issues.items(), key=str): print(k,v)
print(stats); print(flags)
