import numpy as np, dfols, warnings, signal
warnings.simplefilter('ignore')
class TO(Exception): pass
def _h(s,f): raise TO()
signal.signal(signal.SIGALRM,_h)
rng=np.random.default_rng(0); to=0; ok=0
for t in range(150):
    n=int(rng.integers(1,4)); m=int(rng.integers(1,5)); A=rng.normal(size=(m,n)); b=rng.normal(size=m)
    f=lambda x: A@x-b+0.5*np.sin(3*x.sum()+np.arange(m)); x0=rng.normal(size=n)
    up={'restarts.use_restarts':True,'restarts.rhoend_scale':float(rng.choice([0.1,0.5])),'logging.save_diagnostic_info':True,'logging.save_poisedness':False}
    signal.alarm(10)
    try:
        s=dfols.solve(f,x0,maxfun=int(rng.choice([30,60,150])),rhoend=1e-4,user_params=up); signal.alarm(0); ok+=1
        df=s.diagnostic_info
        if df is not None and len(df):
            re=1e-4*up['restarts.rhoend_scale']**df['nruns'].values
            assert np.all(df['rho'].values>=re*(1-1e-12)), (df['rho'].values.min(), re.min())
    except TO: to+=1
print('ok',ok,'timeouts',to)
