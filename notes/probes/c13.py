import numpy as np, warnings, sys
from dfols.trust_region import trsbox_geometry
from collections import Counter
rng = np.random.default_rng(int(sys.argv[1]) if len(sys.argv)>1 else 0)
N = int(sys.argv[2]) if len(sys.argv)>2 else 3000
issues=Counter(); worst=Counter()
def lin_min(g,a,b,D):
    # min g's s.t. a<=s<=b, |s|<=D ; s(t)=clip(-t g,a,b)
    def s(t): return np.clip(-t*g,a,b)
    big=1e300
    sinf=np.where(g>0,a,np.where(g<0,b,0.0))
    if np.linalg.norm(sinf)<=D: return g@sinf
    lo,hi=0.0,1.0
    while np.linalg.norm(s(hi))<D: hi*=2
    for _ in range(200):
        mid=0.5*(lo+hi)
        if np.linalg.norm(s(mid))<D: lo=mid
        else: hi=mid
    return g@s(lo)
for t in range(N):
    n=int(rng.integers(1,9))
    g=rng.normal(size=n)*10.0**rng.integers(-3,4)
    if rng.random()<0.3: g[rng.random(n)<0.4]=0
    c=rng.choice([0.0,1.0,rng.normal()])
    D=10.0**rng.uniform(-4,1)
    xb=rng.normal(size=n)
    lo=xb-np.abs(rng.normal(size=n))*D*10.0**rng.uniform(-2,2,size=n)
    up=xb+np.abs(rng.normal(size=n))*D*10.0**rng.uniform(-2,2,size=n)
    for i in range(n):
        r=rng.random()
        if r<0.15: lo[i]=xb[i]
        elif r<0.3: up[i]=xb[i]
    try:
        x=trsbox_geometry(xb,c,g.copy(),lo,up,D)
    except Exception as e:
        issues[('EXC',type(e).__name__,str(e)[:50])]+=1; continue
    s=x-xb
    tol=1e-12*(1+np.abs(x))
    if np.any(x<lo-tol) or np.any(x>up+tol): issues['box']+=1
    if np.linalg.norm(s)>D*(1+1e-8): issues['ball']+=1; worst['ball']=max(worst['ball'],np.linalg.norm(s)/D-1)
    val=abs(c+g@s)
    a=lo-xb; b=up-xb
    vmin=lin_min(g,a,b,D); vmax=-lin_min(-g,a,b,D)
    best=max(abs(c+vmin),abs(c+vmax))
    if val<abs(c)*(1-1e-12): issues['worse than zero']+=1
    if val<best*(1-1e-6)-1e-300: issues['not global']+=1; worst['ng']=max(worst['ng'],1-val/best); 
for k,v in sorted(issues.items(), key=str): print(k,v)
print(dict(worst))
