#!/bin/bash
cd /tmp/scratch
run(){ name=$1; shift; ( ./mutrun.sh "$name" "$@" > mut_$name.out 2>&1 ) & }
run c01a model.py "        return np.minimum(np.maximum(self.xl, self.xbase + np.minimum(np.maximum(self.sl, x), self.su)), self.xu)" "        return self.xbase + x" c01b.py 0 300
run c01b solver.py "        warnings.warn(\"x0 above upper bound, adjusting\", RuntimeWarning)
    x0[idx] = xu[idx]" "        warnings.warn(\"x0 above upper bound, adjusting\", RuntimeWarning)" c01b.py 0 300
run c02a controller.py "            if self.nf >= self.maxfun:" "            if self.nf > self.maxfun:" c02.py 0 300
run c02b solver.py "            if nf >= maxfun:
                exit_info = ExitInformation(EXIT_MAXFUN_WARNING, \"Objective has been called MAXFUN times\")
                break  # stop evaluating at x0" "            if nf > maxfun:
                exit_info = ExitInformation(EXIT_MAXFUN_WARNING, \"Objective has been called MAXFUN times\")
                break  # stop evaluating at x0" c02.py 0 400
run c03a model.py "        self.eval_num[k] = eval_num
        self.factorisation_current = False" "        self.factorisation_current = False" c03.py 0 300
run c04a model.py "if self.objsave is None or self.objopt() <= self.objsave or np.isnan(self.objsave):" "if self.objsave is None or self.objopt() >= self.objsave or np.isnan(self.objsave):" c04.py 0 300
run c09b solver.py "        projections.append(bproj)" "        projections.insert(0, bproj)" c09.py 0 60
run c10a controller.py "            if self.nf >= self.maxfun:" "            if self.nf >= self.maxfun - 1:" c10.py 0 300
run c11a solver.py "jacmin[:, i] = jacmin[:, i] / scaling_changes[1][i]" "jacmin[:, i] = jacmin[:, i] * scaling_changes[1][i]" c11.py 0 300
run c14a controller.py "at_upper_boundary = (self.model.su < 0.01 * self.delta)" "at_upper_boundary = (self.model.su < -0.01 * self.delta)" c14.py 0 1000
run c15a util.py "            x = P[i](prev_x - y[i,:])" "            x = P[i](prev_x)" c15.py 0 1500
run c16a model.py "        self.eval_num[k] = eval_num
        self.factorisation_current = False" "        self.eval_num[k] = eval_num" c16.py 0 300
run c18a solver.py "                control.delta = control.rho

            # Steps for successful steps" "                control.delta = 0.5 * control.rho

            # Steps for successful steps" c18v.py 0 200
run c19a solver.py "    x0 = x0.astype(float)" "    x0 = np.asarray(x0, dtype=float)" c19.py 0 120
wait
