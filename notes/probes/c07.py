import numpy as np, dfols, warnings, sys
warnings.simplefilter('ignore')
f=lambda x: x-1
x0=np.zeros(2)
def tryit(name, **kw):
    try:
        s=dfols.solve(f,x0,**kw); print(name,'-> flag',s.flag,s.msg, 'nf',s.nf); 
        try: str(s)
        except Exception as e: print('   str fails', type(e).__name__, e)
    except Exception as e: print(name,'-> EXC',type(e).__name__,str(e)[:100])
tryit('rhobeg<0', rhobeg=-1.0)
tryit('npt<n+1', npt=2)
tryit('unknown', user_params={'foo.bar':1})
tryit('badtype', user_params={'tr_radius.eta1':'a'})
tryit('int for float', user_params={'tr_radius.eta1':0})
tryit('maxfun0', maxfun=0)
tryit('ok')
tryit('h no prox', h=lambda x:0.0)
tryit('narrow', bounds=(np.zeros(2), np.ones(2)*0.01))
tryit('maxfun=1', maxfun=1)
tryit('new_value None?', user_params={'noise.additive_noise_level':None})
tryit('np.int64 param', user_params={'slow.max_slow_iters':np.int64(5)})
tryit('np.float64 param', user_params={'tr_radius.eta1':np.float64(0.2)})
tryit('np.bool param', user_params={'restarts.use_restarts':np.True_})
tryit('eta1>eta2', user_params={'tr_radius.eta1':0.9, 'tr_radius.eta2':0.1})
tryit('history0', user_params={'slow.history_for_slow':0})
tryit('max_fake=1', user_params={'restarts.soft.max_fake_successful_steps':1})
s=dfols.solve(f,x0); print([a for a in dir(s) if a.startswith('EXIT')])
