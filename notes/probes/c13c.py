import os; os.environ['OMP_NUM_THREADS']='1'
import numpy as np, sys, warnings
warnings.simplefilter('ignore')
from dfols.controller import Controller
from dfols.params import ParameterList
from dfols.util import model_value
import dfols.controller as C
from collections import Counter
rng=np.random.default_rng(int(sys.argv[1]) if len(sys.argv)>1 else 0); N=int(sys.argv[2]) if len(sys.argv)>2 else 100
st=Counter()
raw=[None]
orig=C.ctrsbox_sfista
def wrap(*a,**k):
    out=orig(*a,**k); raw[0]=out[0].copy(); return out
C.ctrsbox_sfista=wrap
for t in range(N):
    n=int(rng.integers(1,5)); m=int(rng.integers(n,n+3)); A=rng.normal(size=(m,n)); b=rng.normal(size=m)
    lam=10.0**rng.integers(-2,1); h=lambda x: lam*np.abs(x).sum(); prox=lambda x,u: np.sign(x)*np.maximum(np.abs(x)-lam*u,0)
    f=lambda x: A@x-b
    # choose xopt: random or at the regularised minimiser (stationary)
    mode=str(rng.choice(['random','stationary']))
    if mode=='stationary':
        L=2*np.linalg.norm(A,2)**2; x=np.zeros(n)
        for it in range(20000):
            x=prox(x-2*A.T@(A@x-b)/L,1/L)
        xk=x+rng.normal(size=n)*float(rng.choice([0,1e-9,1e-5]))
    else: xk=rng.normal(size=n)
    bounded=bool(rng.random()<0.5)
    xl=xk-rng.random(n)*rng.choice([0,1.0],size=n) if bounded else -1e20*np.ones(n); xu=xk+0.1+rng.random(n) if bounded else 1e20*np.ones(n)
    npt=n+1; params=ParameterList(n,npt,100)
    rho=10.0**rng.uniform(-6,0)
    ctl=Controller(f,(),xk.copy(),f(xk),1,xl,xu,[],npt,rho,rho*1e-3,1,1,100,params,None,False,h=h,lh=lam*np.sqrt(n),argsh=(),prox_uh=prox,argsprox=())
    for k in range(1,npt):
        s=np.zeros(n); s[k-1]=min(rho,(xu[k-1]-xk[k-1])/2)
        ctl.model.change_point(k,s,f(xk+s),k+1)
    # make sure kopt is the centre: may move; fine
    ok=ctl.model.interpolate_mini_models_svd()[0]
    assert ok
    crit=ctl.evaluate_criticality_measure(params)
    d,gopt,H,gnew,crv=ctl.trust_region_step(params,crit)
    xo=ctl.model.xopt(abs_coordinates=True)
    pred=h(xo)-model_value(gopt,H,d,xo,h)
    rawpred=h(xo)-model_value(gopt,H,raw[0],xo,h)
    st[(mode,'raw neg' if rawpred<0 else 'raw ok')]+=1
    if pred< -1e-12*(abs(h(xo))+1e-300): st['VIOLATION neg pred']+=1
    if np.linalg.norm(d)>ctl.delta*(1+1e-8): st['VIOLATION ball']+=1
print(st)
