import os; os.environ['OMP_NUM_THREADS']='1'
import numpy as np, time
import hypothesis
from hypothesis import settings, strategies as st, seed, HealthCheck
from hypothesis.stateful import RuleBasedStateMachine, rule, invariant, precondition, run_state_machine_as_test, initialize
from dfols.model import Model
vals=st.integers(-3,3).map(float)
class ModelVsShadow(RuleBasedStateMachine):
    @initialize(n=st.integers(1,3), m=st.integers(1,3), extra=st.integers(0,2), data=st.data())
    def init(self,n,m,extra,data):
        self.n=n; self.m=m; self.npt=n+1+min(extra,n)
        self.x0=np.zeros(n); r0=np.array(data.draw(st.lists(vals,min_size=m,max_size=m)))
        self.model=Model(self.npt,self.x0.copy(),r0,-5*np.ones(n),5*np.ones(n),[],1,do_logging=False)
        self.sh=[dict(x=self.x0.copy(),samples=[r0.copy()],ev=1)]; self.nev=1; self.log=[('init',n,m,self.npt,r0.tolist())]
    def rvec(self,data): return np.array(data.draw(st.lists(vals,min_size=self.m,max_size=self.m)))
    @rule(data=st.data(), slot=st.integers(0,10), grow=st.booleans())
    def change(self,data,slot,grow):
        k_=self.model.npt()
        k=k_ if (k_<self.npt and grow) else slot%k_
        x=np.array(data.draw(st.lists(st.integers(-4,4).map(float),min_size=self.n,max_size=self.n))); r=self.rvec(data); self.nev+=1
        self.model.change_point(k,x-self.model.xbase,r,self.nev); ent=dict(x=x,samples=[r.copy()],ev=self.nev)
        if k==len(self.sh): self.sh.append(ent)
        else: self.sh[k]=ent
        self.log.append(('change',k,x.tolist(),r.tolist()))
    @rule(data=st.data(), slot=st.integers(0,10))
    def sample(self,data,slot):
        k=slot%self.model.npt(); r=self.rvec(data); self.model.add_new_sample(k,r); self.sh[k]['samples'].append(r.copy()); self.log.append(('sample',k,r.tolist()))
    @precondition(lambda self: self.model.npt()>=2)
    @rule(a=st.integers(0,10), b=st.integers(0,10))
    def swap(self,a,b):
        k_=self.model.npt(); a%=k_; b%=k_
        if a==b: return
        self.model.swap_points(a,b); self.sh[a],self.sh[b]=self.sh[b],self.sh[a]; self.log.append(('swap',a,b))
    @invariant()
    def agrees(self):
        if not hasattr(self,'model'): return
        for k in range(self.model.npt()):
            s=self.sh[k]
            assert self.model.nsamples[k]==len(s['samples']), ('nsamples',k,self.log)
            assert self.model.eval_num[k]==s['ev'], ('eval_num',k)
            assert np.allclose(self.model.fval_v[k],np.mean(s['samples'],axis=0),rtol=1e-12,atol=1e-12), ('mean',k)
t0=time.time()
try:
    run_state_machine_as_test(seed(int(os.environ.get('VERIF_SEED','1')))(ModelVsShadow), settings=settings(max_examples=300, stateful_step_count=30, deadline=None, database=None, suppress_health_check=list(HealthCheck)))
    print('no failure', time.time()-t0)
except AssertionError as e:
    print('FAIL', str(e)[:400], 'time %.1f'%(time.time()-t0))
