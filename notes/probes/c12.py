import numpy as np, warnings, sys
from dfols.trust_region import trsbox
from collections import Counter
rng = np.random.default_rng(int(sys.argv[1]) if len(sys.argv)>1 else 0)
N = int(sys.argv[2]) if len(sys.argv)>2 else 3000
issues=Counter(); worst=Counter()
for t in range(N):
    n=int(rng.integers(1,9))
    gs = 10.0**rng.integers(-3,4); g=rng.normal(size=n)*gs
    if rng.random()<0.2: g[rng.random(n)<0.5]=0
    kind=rng.choice(['psd','lowrank','zero','indef'])
    if kind=='psd': J=rng.normal(size=(n+2,n)); H=2*J.T@J
    elif kind=='lowrank': J=rng.normal(size=(max(1,n//2),n)); H=2*J.T@J
    elif kind=='zero': H=np.zeros((n,n))
    else: B=rng.normal(size=(n,n)); H=B+B.T
    H*=10.0**rng.integers(-2,3)
    delta=10.0**rng.uniform(-6,2)
    xopt=rng.normal(size=n)
    sl=xopt-np.abs(rng.normal(size=n))*delta*10.0**rng.uniform(-2,2,size=n)
    su=xopt+np.abs(rng.normal(size=n))*delta*10.0**rng.uniform(-2,2,size=n)
    for i in range(n):
        r=rng.random()
        if r<0.15: sl[i]=xopt[i]
        elif r<0.3: su[i]=xopt[i]
        elif r<0.4: sl[i]=-1e20; su[i]=1e20
    try:
        d,gnew,crvmin=trsbox(xopt,g.copy(),H,sl,su,delta)
    except Exception as e:
        issues[('EXC',type(e).__name__,str(e)[:50])]+=1; continue
    x=xopt+d
    if np.any(x<sl) or np.any(x>su): issues[('box',kind)]+=1; worst['box']=max(worst['box'], max(np.max(sl-x),np.max(x-su)))
    nd=np.linalg.norm(d)
    if nd>delta*(1+1e-8): issues[('ball',kind)]+=1; worst['ball']=max(worst['ball'],nd/delta-1)
    q=g@d+0.5*d@H@d
    scaleq = abs(g@d)+0.5*abs(d@H@d)+1e-300
    if q>1e-12*scaleq: issues[('increase',kind)]+=1; worst['inc']=max(worst['inc'],q/scaleq)
    # cauchy: steepest descent direction projected: s=-g with components fixed where at bound & pointing out
    s=-g.copy(); s[(xopt<=sl)&(g>=0)]=0; s[(xopt>=su)&(g<=0)]=0
    if np.linalg.norm(s)>0:
        tmax=delta/np.linalg.norm(s)
        for i in range(n):
            if s[i]>0: tmax=min(tmax,(su[i]-xopt[i])/s[i])
            elif s[i]<0: tmax=min(tmax,(sl[i]-xopt[i])/s[i])
        sHs=s@H@s
        tstar = tmax if sHs<=0 else min(tmax, -(g@s)/sHs)
        qc = tstar*(g@s)+0.5*tstar**2*sHs
        if q > qc + 1e-10*abs(qc): issues[('cauchy',kind)]+=1; worst['cauchy']=max(worst['cauchy'],(q-qc)/abs(qc))
    err=np.linalg.norm(gnew-(g+H@d)); sc=np.linalg.norm(g)+np.linalg.norm(H,2)*nd+1e-300
    if err>1e-9*sc: issues[('gnew',kind)]+=1; worst['gnew']=max(worst['gnew'],err/sc)
for k,v in sorted(issues.items(), key=str): print(k,v)
print(dict(worst))
