import os, sys, json, time, hashlib
os.environ.setdefault('OMP_NUM_THREADS','1')
import numpy as np
import hypothesis
from hypothesis import given, settings, strategies as st, seed, HealthCheck, Phase
from dfols.trust_region import trsbox

grid = st.integers(-32,32).map(lambda k: k/8)
@st.composite
def case(draw):
    n = draw(st.integers(1,5))
    g = [draw(grid)*10.0**draw(st.integers(-2,2)) for _ in range(n)]
    kind = draw(st.sampled_from(['psd','lowrank','zero','indef']))
    rows = {'psd':n+1,'lowrank':max(1,n//2),'zero':0,'indef':n}[kind]
    B = [[draw(grid) for _ in range(n)] for _ in range(rows)]
    delta = 10.0**draw(st.integers(-4,2))*draw(st.sampled_from([1.0,2.5,7.0]))
    lo = [draw(st.sampled_from([0.0,1e-12,0.1,1.0,10.0,1e20])) for _ in range(n)]
    up = [draw(st.sampled_from([0.0,1e-12,0.1,1.0,10.0,1e20])) for _ in range(n)]
    xopt = [draw(grid) for _ in range(n)]
    return dict(n=n,g=g,kind=kind,B=B,delta=delta,lo=lo,up=up,xopt=xopt)

def build(c):
    n=c['n']; g=np.array(c['g']); B=np.array(c['B']).reshape(-1,n) if c['B'] else np.zeros((0,n))
    if c['kind']=='indef': H=B+B.T
    elif c['kind']=='zero': H=np.zeros((n,n))
    else: H=2*B.T@B
    xopt=np.array(c['xopt']); d=c['delta']
    sl=xopt-np.array(c['lo'])*np.where(np.array(c['lo'])<1e19,d,1); su=xopt+np.array(c['up'])*np.where(np.array(c['up'])<1e19,d,1)
    return xopt,g,H,sl,su,d

def clauses(c):
    xopt,g,H,sl,su,delta=build(c)
    d,gnew,crv=trsbox(xopt,g.copy(),H,sl,su,delta)
    out={}
    x=xopt+d
    out['box']=bool(np.all(x>=sl) and np.all(x<=su))
    out['ball']=bool(np.linalg.norm(d)<=delta*(1+1e-8))
    q=g@d+0.5*d@H@d
    out['noinc']=bool(q<=1e-12*(abs(g@d)+0.5*abs(d@H@d)+1e-300))
    s=-g.copy(); s[(xopt<=sl)&(g>=0)]=0; s[(xopt>=su)&(g<=0)]=0
    ok=True
    if np.linalg.norm(s)>0:
        tmax=delta/np.linalg.norm(s)
        for i in range(len(s)):
            if s[i]>0: tmax=min(tmax,(su[i]-xopt[i])/s[i])
            elif s[i]<0: tmax=min(tmax,(sl[i]-xopt[i])/s[i])
        sHs=s@H@s; t=tmax if sHs<=0 else min(tmax,-(g@s)/sHs)
        qc=t*(g@s)+0.5*t*t*sHs
        ok=bool(q<=qc+1e-10*abs(qc))
    out['cauchy']=ok
    return out

def run(seed_value, n_examples, ignore):
    stats=dict(evals=0, nontrivial=set(), failures={}, ignored=0)
    last={}
    @seed(seed_value)
    @settings(max_examples=n_examples, database=None, deadline=None, report_multiple_bugs=False,
              suppress_health_check=list(HealthCheck), phases=[Phase.generate, Phase.shrink])
    @given(case())
    def test(c):
        stats['evals']+=1
        res=clauses(c)
        bad=sorted(k for k,v in res.items() if not v)
        bad=[b for b in bad if b not in ignore] or ([] if not bad else None)
        if bad is None: stats['ignored']+=1; return
        if any(l==0.0 for l in c['lo']+c['up']): stats['nontrivial'].add(hashlib.sha1(json.dumps(c,sort_keys=True).encode()).hexdigest())
        if bad:
            last['case']=c; last['bad']=bad
            raise AssertionError(','.join(bad))
    t0=time.time()
    try:
        test(); fail=None
    except AssertionError as e:
        fail=dict(clauses=last['bad'], case=last['case'])
    return fail, stats, time.time()-t0

if __name__=='__main__':
    ignore=set(); seedv=int(os.environ.get('VERIF_SEED','1'))
    while True:
        fail,stats,dt=run(seedv, 3000, ignore)
        print('evals',stats['evals'],'nontrivial',len(stats['nontrivial']),'ignored',stats['ignored'],'time %.1f'%dt)
        if not fail: break
        print('FAIL',fail['clauses'],json.dumps(fail['case']))
        # replay check
        print('replay ->',clauses(fail['case']))
        ignore|=set(fail['clauses'])
