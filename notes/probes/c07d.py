import os; os.environ['OMP_NUM_THREADS']='1'
import numpy as np, dfols, warnings, sys, signal
import dfols.model as M
from dfols.params import ParameterList
from dfols.util import pball
warnings.simplefilter('ignore')
import logging; logging.getLogger('dfols').setLevel(logging.CRITICAL)
from collections import Counter
class TO(Exception): pass
def handler(s,f): raise TO()
signal.signal(signal.SIGALRM, handler)
rng=np.random.default_rng(int(sys.argv[1])); N=int(sys.argv[2])
fits=[0]; orig=M.Model.interpolate_mini_models_svd
def w(self,*a,**k):
    fits[0]+=1
    if fits[0]>30000: raise TO()
    return orig(self,*a,**k)
M.Model.interpolate_mini_models_svd=w
lam=0.1
issues=Counter(); flags=Counter()
for t in range(N):
    n=int(rng.integers(2,4)); m=int(rng.integers(n,n+3)); A=rng.normal(size=(m,n)); b=rng.normal(size=m)
    f=lambda x: A@x-b+0.5*np.sin(2*x.sum()+np.arange(m))
    x0=rng.normal(size=n)
    base=str(rng.choice(['plain','bounds','noisy','hard','proj','reg']))
    kw={}; up={}
    npt=n+1 if base in('proj',) or rng.random()<0.5 else int(rng.integers(n+1,2*n+2))
    if base=='bounds': kw['bounds']=(x0-1-rng.random(n),x0+1+rng.random(n))
    if base=='noisy': kw['objfun_has_noise']=True
    if base=='hard': up.update({'restarts.use_restarts':True,'restarts.use_soft_restarts':False})
    if base=='proj': c=x0+0.2*rng.normal(size=n); kw['projections']=[lambda x,c=c: pball(x,c,1.0)]
    if base=='reg': kw.update(h=lambda x: lam*np.abs(x).sum(), lh=lam*np.sqrt(n), prox_uh=lambda x,u: np.sign(x)*np.maximum(np.abs(x)-lam*u,0))
    P=ParameterList(n,npt,100)
    keys=list(P.params.keys())
    for key in rng.choice(keys,size=int(rng.integers(1,4)),replace=False):
        key=str(key)
        if key in up: continue
        tp,none_ok,lo,hi=P.param_type(key,npt)
        if key in ('growing.ndirs_initial','restarts.increase_npt','restarts.max_npt','init.run_in_parallel','growing.reset_rho','growing.perturb_trust_region_step','growing.safety.full_geom_step','noise.multiplicative_noise_level','interpolation.throw_error_on_nans','logging.save_xk','logging.save_rk','dykstra.d_tol','dykstra.max_iters'): continue
        if tp=='bool': v=bool(rng.random()<0.5)
        elif tp=='int':
            l=lo if lo is not None else 0; hgh=hi if hi is not None else l+10
            v=int(rng.choice([l, hgh, int(rng.integers(l,hgh+1))]))
        else:
            l=lo if lo is not None else 0.0; hgh=hi if hi is not None else max(10.0,l*10)
            v=float(rng.choice([l,hgh,l+(hgh-l)*rng.random(), l+(hgh-l)*10.0**rng.uniform(-6,0)]))
        up[key]=v
    fits[0]=0; np.random.seed(t)
    signal.alarm(90)
    try:
        s=dfols.solve(f,x0,npt=npt,maxfun=(25 if base in('proj','reg') else 80),rhoend=1e-5,user_params=up,**kw); signal.alarm(0)
        str(s)
        flags[(s.flag,)]+=1
        if s.flag not in (0,1,2,3,5,-1,-2,-3,-4): issues[('flag',s.flag)]+=1
    except TO:
        issues[('NO RETURN',base,fits[0]>30000)]+=1; print('NORETURN',base,up,fits[0])
    except Exception as e:
        signal.alarm(0); key=('EXC',base,type(e).__name__,str(e)[:60]); issues[key]+=1
        if issues[key]<3: print('EXC',key,up,'npt',npt,'n',n)
for k,v in sorted(issues.items(),key=str): print(k,v)
print(flags)
