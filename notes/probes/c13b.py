import numpy as np, warnings, sys
from dfols.trust_region import ctrsbox_pgd, ctrsbox_sfista, ctrsbox_geometry
from dfols.util import pball, pbox, model_value
from collections import Counter
rng = np.random.default_rng(int(sys.argv[1]) if len(sys.argv)>1 else 0)
N = int(sys.argv[2]) if len(sys.argv)>2 else 300
issues=Counter(); worst=Counter(); st=Counter()
for t in range(N):
    n=int(rng.integers(1,6))
    x=rng.normal(size=n); D=10.0**rng.uniform(-4,1)
    P=[]
    for _ in range(int(rng.integers(1,4))):
        k=rng.choice(['ball','half','box'])
        if k=='ball':
            r=D*10.0**rng.uniform(-1,2); c=x+rng.normal(size=n); c=x+(c-x)/np.linalg.norm(c-x)*r*rng.choice([0.0,0.5,1.0]); P.append(lambda w,c=c,r=r: pball(w,c,r))
        elif k=='half':
            a=rng.normal(size=n); a/=np.linalg.norm(a); beta=a@x+D*rng.choice([0.0,0.1,10]); P.append(lambda w,a=a,beta=beta: w-max(0,a@w-beta)*a)
        else:
            l=x-D*rng.choice([0,0.1,10],size=n); u=x+D*rng.choice([0,0.1,10],size=n); u=np.maximum(u,l+1e-3*D); P.append(lambda w,l=l,u=u: pbox(w,l,u))
    g=rng.normal(size=n)*10.0**rng.integers(-3,4); J=rng.normal(size=(int(rng.integers(1,n+2)),n)); H=2*J.T@J*10.0**rng.integers(-2,3)
    c0=rng.choice([0.0,1.0])
    for name in ('pgd','geom','sfista'):
        try:
            if name=='pgd': d,_,_=ctrsbox_pgd(x,g.copy(),H,P,D)
            elif name=='geom': d=ctrsbox_geometry(x,c0,g.copy(),P,D)
            else:
                lam=10.0**rng.integers(-3,1); h=lambda w: lam*np.abs(w).sum(); prox=lambda w,u: np.sign(w)*np.maximum(np.abs(w)-lam*u,0)
                d,_,_=ctrsbox_sfista(x,g.copy(),H,P,D,h,lam*np.sqrt(n),prox,func_tol=1e-3*D,max_iters=200)
                pr=h(x)-model_value(g,H,d,x,h); st['sfista neg pred' if pr<0 else 'sfista ok']+=1
        except Exception as e: issues[(name,'EXC',type(e).__name__,str(e)[:50])]+=1; continue
        nd=np.linalg.norm(d)
        if nd>D*(1+1e-8): issues[(name,'ball')]+=1; worst[name]=max(worst[name],nd/D-1)
for k,v in sorted(issues.items(), key=str): print(k,v)
print(dict(worst), st)
