import numpy as np, dfols, warnings, sys
warnings.simplefilter('ignore')
from collections import Counter
rng = np.random.default_rng(int(sys.argv[1]) if len(sys.argv)>1 else 0)
N = int(sys.argv[2]) if len(sys.argv)>2 else 30
issues=Counter(); flags=Counter(); gaps=[]
def oracle(A,b,lam,xl,xu):
    L = 2*np.linalg.norm(A,2)**2
    x = np.clip(np.zeros(A.shape[1]), xl, xu); y=x.copy(); t=1
    for it in range(400000):
        z = y-2*A.T@(A@y-b)/L
        xn = np.clip(np.sign(z)*np.maximum(np.abs(z)-lam/L,0), xl, xu)
        tn=(1+np.sqrt(1+4*t*t))/2
        y = xn + (t-1)/tn*(xn-x)
        if np.linalg.norm(xn-x)<1e-15*(1+np.linalg.norm(x)) and it>50: x=xn; break
        x=xn; t=tn
    return np.sum((A@x-b)**2)+lam*np.abs(x).sum(), x
for t in range(N):
    n = int(rng.integers(1,5)); m=int(rng.integers(n,n+4))
    A = rng.normal(size=(m,n)); b=rng.normal(size=m)*float(rng.choice([1,5]))
    lam = 10.0**rng.integers(-3,1)
    h = lambda x,l: l*np.abs(x).sum()
    prox = lambda x,u,l: np.sign(x)*np.maximum(np.abs(x)-l*u,0)
    x0 = rng.normal(size=n)
    xl = x0 - 0.3-rng.random(n)*2; xu = x0 + 0.3+rng.random(n)*2
    Fs,xs = oracle(A,b,lam,xl,xu)
    act=int(np.sum((xs<=xl)|(xs>=xu)))
    try: s = dfols.solve(lambda x: A@x-b, x0, h=h, lh=lam*np.sqrt(n), prox_uh=prox, argsh=(lam,), argsprox=(lam,), bounds=(xl,xu))
    except Exception as e: issues[('EXC '+type(e).__name__+': '+str(e)[:80])]+=1; continue
    flags[(s.flag, s.msg[:50])]+=1
    gap=(s.obj-Fs)/(1+Fs); gaps.append((gap,act,lam,n,s.flag,s.nf))
    rec=np.sum((A@s.x-b)**2)+lam*np.abs(s.x).sum()
    if abs(rec-s.obj)>1e-12*(1+abs(rec)): issues[('obj inconsistent', '%.1e'%abs(rec-s.obj))]+=1
    if gap>1e-3 or s.flag!=0 or gap<-1e-9: issues[('subopt' if gap>1e-3 else 'neg' if gap<-1e-9 else 'flag',act>0,s.flag)]+=1
gaps.sort(reverse=True)
for k,v in sorted(issues.items(), key=str): print(k,v)
for k,v in flags.items(): print(k,v)
print(gaps[:5])
