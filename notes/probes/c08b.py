import os, sys, signal, warnings
os.environ['OMP_NUM_THREADS']='1'
import numpy as np, dfols
from dfols.util import pball
warnings.simplefilter('ignore')
import logging; logging.getLogger('dfols').setLevel(logging.CRITICAL)
from collections import Counter
class TO(Exception): pass
def _h(s,f): raise TO()
signal.signal(signal.SIGALRM,_h)
def rosen(x): return np.array([10.0 * (x[1] - x[0] ** 2), 1.0 - x[0], 0.1*x[0]])
x0=np.array([-1.2,1.0]); lam=0.1
CAT={
 'plain':dict(maxfun=50),
 'bounds':dict(maxfun=50,bounds=(np.array([-2.,-2.]),np.array([0.9,0.9]))),
 'scaled':dict(maxfun=50,bounds=(np.array([-2.,-2.]),np.array([0.9,0.9])),scaling_within_bounds=True,rhobeg=0.1),
 'proj1':dict(maxfun=40,projections=[lambda x: pball(x,np.array([0.0,0.5]),1.5)]),
 'proj2':dict(maxfun=40,projections=[lambda x: pball(x,np.array([0.0,0.5]),1.5), lambda x: x-max(0,x[0]+x[1]-1.0)*np.array([0.5,0.5])],bounds=(np.array([-2.,-2.]),np.array([0.9,1.2]))),
 'regress':dict(maxfun=50,npt=5),
 'grow':dict(maxfun=50,user_params={'growing.ndirs_initial':1}),
 'soft':dict(maxfun=70,rhoend=1e-3,user_params={'restarts.use_restarts':True}),
 'hard':dict(maxfun=70,rhoend=1e-3,user_params={'restarts.use_restarts':True,'restarts.use_soft_restarts':False}),
 'hardnew':dict(maxfun=70,rhoend=1e-3,user_params={'restarts.use_restarts':True,'restarts.use_soft_restarts':False,'restarts.hard.use_old_rk':False}),
 'avg2':dict(maxfun=60,nsamples=lambda d,r,i,n: 2),
 'reg':dict(maxfun=30,h=lambda x: lam*np.abs(x).sum(), lh=lam*2**0.5, prox_uh=lambda x,u: np.sign(x)*np.maximum(np.abs(x)-lam*u,0)),
}
name=sys.argv[1]; kw=CAT[name]
issues=Counter()
def run(k, fault, comp):
    rec=[]
    def f(x):
        r=rosen(x)
        if len(rec)+1==k:
            if fault=='exc': rec.append((x.copy(),None)); raise RuntimeError('boom')
            r=r.copy()
            if comp=='all': r[:]=fault
            else: r[1]=fault
        rec.append((x.copy(),r.copy())); return r
    signal.alarm(120)
    try:
        s=dfols.solve(f,x0,**kw); signal.alarm(0)
    except RuntimeError as e:
        signal.alarm(0)
        return (('raised ok',) if (str(e)=='boom' and len(rec)==k) else ('EXC RuntimeError',str(e)[:50])), rec, None
    except TO: return ('NO RETURN',), rec, None
    except Exception as e:
        signal.alarm(0); return ('EXC',type(e).__name__, str(e)[:60]), rec, None
    return None, rec, s
_,rec0,s0=run(10**9,None,'all'); nf=len(rec0)
avg='nsamples' in kw
bl=kw.get('bounds',(np.array([-np.inf]*2),np.array([np.inf]*2)))
tot=0
for fault in [np.nan, np.inf, -np.inf, 1e200, 'exc']:
    for comp in (['all','one'] if fault!='exc' else ['all']):
        for k in range(1,nf+1):
            st,rec,s=run(k,fault,comp); tot+=1
            if st is not None:
                if st!=('raised ok',): issues[(str(fault),comp)+st]+=1
                continue
            if len(rec)>kw['maxfun'] or s.nf!=len(rec): issues[(str(fault),'budget')]+=1
            if any(np.any(x<bl[0]) or np.any(x>bl[1]) for x,_ in rec): issues[(str(fault),'bounds')]+=1
            if not np.all(np.isfinite(s.x)): issues[(str(fault),comp,'x nonfinite')]+=1
            elif not any(np.allclose(s.x,x,rtol=1e-13,atol=1e-13) for x,_ in rec): issues[(str(fault),comp,'x not evaluated')]+=1
            fb=[r@r+(kw['h'](x) if 'h' in kw else 0) for x,r in rec[:k-1] if np.all(np.isfinite(r))]
            if fb:
                if not np.isfinite(s.obj): issues[(str(fault),comp,'nonfinite obj',s.flag,s.msg[:25])]+=1
                elif not avg and s.obj>min(fb)*(1+1e-13): issues[(str(fault),comp,'displaced',s.flag)]+=1
            if s.flag==0 and not np.isfinite(s.obj): issues[(str(fault),comp,'false success')]+=1
print(name,'nf',nf,'runs',tot)
for k,v in sorted(issues.items(), key=str): print('  ',k,v)
