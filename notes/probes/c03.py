import numpy as np, dfols, warnings, sys, logging, re
warnings.simplefilter('ignore')
from collections import Counter
rng = np.random.default_rng(int(sys.argv[1]) if len(sys.argv)>1 else 0)
N = int(sys.argv[2]) if len(sys.argv)>2 else 300
issues=Counter(); flags=Counter()
for t in range(N):
    n = int(rng.integers(1,4)); m=int(rng.integers(1,5))
    A = rng.normal(size=(m,n)); b=rng.normal(size=m)
    rec=[]; 
    def f(x):
        r = A@x-b + 0.3*np.sin(x.sum())
        rec.append((x.copy(), r.copy()))
        return r
    x0 = rng.normal(size=n)
    maxfun = int(rng.choice([1,2,3,n+1,n+2,5,10,30,60,120]))
    up = {}
    mode = rng.choice(['none','soft','hard','hard_new'])
    if mode!='none':
        up['restarts.use_restarts']=True
        if mode.startswith('hard'): up['restarts.use_soft_restarts']=False
        if mode=='hard_new': up['restarts.hard.use_old_rk']=False
    bounds=None
    if rng.random()<0.5:
        xl = x0 - rng.random(n)*2; xu = x0 + 0.3+rng.random(n)*2
        bounds=(xl,xu)
    scaling = bounds is not None and rng.random()<0.4
    kw={}
    if scaling: kw=dict(rhobeg=0.1, scaling_within_bounds=True)
    try:
        s = dfols.solve(f, x0, maxfun=maxfun, rhoend=1e-3, user_params=up, bounds=bounds, **kw)
    except Exception as e:
        issues['EXC '+type(e).__name__+': '+str(e)[:80]]+=1; continue
    flags[(s.flag, s.msg[:40])]+=1
    k = s.xmin_eval_num
    key=(mode, s.nruns>1)
    if not (1<=k<=len(rec)): issues[('evalnum out of range',k,)+key]+=1; continue
    x,r = rec[k-1]
    if not np.allclose(x, s.x, rtol=1e-12, atol=1e-12): issues[('x mismatch',)+key]+=1
    elif not np.allclose(r, s.resid, rtol=1e-12, atol=1e-12): issues[('r mismatch',)+key]+=1
    if abs(s.obj - s.resid@s.resid) > 1e-12*(1+abs(s.obj)): issues[('obj mismatch',)+key]+=1
for k,v in sorted(issues.items(), key=str): print(k,v)
print(flags)
