import numpy as np, dfols, warnings, sys, signal
warnings.simplefilter('ignore')
from collections import Counter
class TO(Exception): pass
def _h(s,f): raise TO()
signal.signal(signal.SIGALRM,_h)
rng = np.random.default_rng(int(sys.argv[1]) if len(sys.argv)>1 else 0)
N = int(sys.argv[2]) if len(sys.argv)>2 else 300
issues=Counter(); flags=Counter()
for t in range(N):
    n = int(rng.integers(1,4)); m=int(rng.integers(1,5))
    A = rng.normal(size=(m,n)); b=rng.normal(size=m) if rng.random()<0.7 else A@rng.normal(size=n)
    nl=float(rng.choice([0,0.5]))
    rec=[]
    def f(x):
        r=A@x-b+nl*(np.sin(3*x.sum()+np.arange(m))-np.sin(np.arange(m))); rec.append(r.copy()); return r
    x0 = rng.normal(size=n)
    rhobeg=10.0**rng.uniform(-2,0.5); rhoend=rhobeg*10.0**rng.uniform(-8,-1)
    maxfun = int(rng.choice([1,n+1,n+2,10,30,60,150]))
    abs_tol=float(rng.choice([1e-12,1e-6,1e-2])); rel_tol=float(rng.choice([1e-20,1e-4,1e-1]))
    up = {'logging.save_diagnostic_info':True,'model.abs_tol':abs_tol,'model.rel_tol':rel_tol}
    mode = str(rng.choice(['none','soft','hard']))
    sc=1.0; mu=10
    if mode!='none':
        up['restarts.use_restarts']=True
        if mode=='hard': up['restarts.use_soft_restarts']=False; sc=float(rng.choice([0.1,1.0])); up['restarts.rhoend_scale']=sc
        mu=int(rng.choice([1,2,10])); up['restarts.max_unsuccessful_restarts']=mu
    signal.alarm(10)
    try:
        s = dfols.solve(f, x0, maxfun=maxfun, rhobeg=rhobeg,rhoend=rhoend, user_params=up)
        signal.alarm(0)
    except TO: issues['TIMEOUT']+=1; continue
    except Exception as e:
        signal.alarm(0); issues['EXC '+type(e).__name__+': '+str(e)[:80]]+=1; continue
    flags[(s.flag, s.msg[:60])]+=1
    f0=rec[0]@rec[0]
    if s.flag==0 and 'sufficiently small' in s.msg and not s.obj<=max(abs_tol,rel_tol*f0): issues[('small lie',mode)]+=1
    if s.flag==0 and 'rhoend' in s.msg:
        df=s.diagnostic_info; last=df['rho'].values[-1]; exp=rhoend*sc**(s.nruns-1)
        if abs(last-exp)>1e-12*exp: issues[('rhoend lie',mode,last/exp)]+=1
    if s.flag==1 and s.nf!=maxfun: issues[('maxfun lie',mode)]+=1
    if 'unsuccessful restarts' in s.msg and s.nruns<mu: issues[('restarts lie',mode)]+=1
    if s.flag==0 and not np.isfinite(s.obj): issues['success nonfinite']+=1
    if mode=='none' and s.nruns!=1: issues['nruns']+=1
    if s.diagnostic_info is not None and len(s.diagnostic_info)>0:
        if s.nruns != s.diagnostic_info['nruns'].values[-1]+1: issues[('nruns vs diag',mode, s.nruns-s.diagnostic_info['nruns'].values[-1], s.msg[:30])]+=1
for k,v in sorted(issues.items(), key=str): print(k,v)
for k,v in flags.items(): print(k,v)
