import numpy as np, dfols, warnings, sys, json, signal, traceback
class TO(Exception): pass
def _h(s,f): raise TO()
signal.signal(signal.SIGALRM,_h)
warnings.simplefilter('ignore')
from collections import Counter
rng = np.random.default_rng(int(sys.argv[1]) if len(sys.argv)>1 else 0)
N = int(sys.argv[2]) if len(sys.argv)>2 else 200
issues=Counter(); flags=Counter()
for t in range(N):
    n = int(rng.integers(1,4)); m=int(rng.integers(1,5))
    A = rng.normal(size=(m,n)); b=rng.normal(size=m); nl=rng.choice([0,0.5])
    noise=rng.choice([0,0,1e-2]); nrng=np.random.default_rng(t)
    def f(x): 
        r=A@x-b+nl*np.sin(3*x.sum()+np.arange(m))
        return r*(1+noise*nrng.normal(size=m)) if noise else r
    x0 = rng.normal(size=n)
    rhobeg=10.0**rng.uniform(-2,0.5); rhoend=rhobeg*10.0**rng.uniform(-8,-1)
    maxfun = int(rng.choice([n+2,10,30,60,150]))
    up = {'logging.save_diagnostic_info':True}
    mode = rng.choice(['none','soft','hard'])
    if mode!='none':
        up['restarts.use_restarts']=True
        if mode=='hard': up['restarts.use_soft_restarts']=False
        if rng.random()<0.5 and mode=='hard': up['restarts.rhoend_scale']=float(rng.choice([0.1,0.5,1.0]))
    kw={}
    npt=int(rng.integers(n+1,2*n+2)); kw['npt']=npt
    if rng.random()<0.3 and n>1: up['growing.ndirs_initial']=int(rng.integers(1,n)); kw['npt']=npt=n+1
    if rng.random()<0.3: kw['objfun_has_noise']=True
    if rng.random()<0.4:
        xl = x0 - rhobeg*(1+rng.random(n)*5); xu = x0 + rhobeg*(1+rng.random(n)*5); kw['bounds']=(xl,xu)
    signal.alarm(3)
    try:
        s = dfols.solve(f, x0, maxfun=maxfun, rhobeg=rhobeg,rhoend=rhoend, user_params=up, **kw)
    except TO:
        print('TIMEOUT case',t,dict(n=n,m=m,maxfun=maxfun,up=up,kw={k:v for k,v in kw.items()},rhobeg=rhobeg,rhoend=rhoend,noise=noise)); traceback.print_exc(limit=-4); issues['TIMEOUT']+=1; continue
    except Exception as e:
        signal.alarm(0); traceback.print_exc(limit=-3); print('EXCCASE',t,dict(n=n,m=m,maxfun=maxfun,up=up,kw=kw,rhobeg=rhobeg,rhoend=rhoend)); issues['EXC '+type(e).__name__+': '+str(e)[:80]]+=1; continue
    signal.alarm(0)
    flags[(s.flag, s.msg[:60])]+=1
    df=s.diagnostic_info
    if df is None or len(df)==0: issues[('empty df', s.nf)]+=1; continue
    rho=df['rho'].values; delta=df['delta'].values; runs=df['nruns'].values; fk=df['fk'].values
    sc=up.get('restarts.rhoend_scale',1.0)
    for i in range(len(df)):
        re_i = rhoend*sc**runs[i]
        if not (delta[i]>=rho[i]>0): issues['delta<rho']+=1; break
        if not (rho[i]<=rhobeg and rho[i]>=re_i*(1-1e-12)): issues[('rho range', mode)]+=1; print(rho[i], re_i, rhobeg, runs[i]); break
        if delta[i]>1e10: issues['delta>1e10']+=1; break
    for i in range(1,len(df)):
        if runs[i]==runs[i-1]:
            if rho[i]>rho[i-1]: issues[('rho increased', 'growing.ndirs_initial' in up)]+=1; break
            if noise==0 and fk[i]>fk[i-1]: issues[('fk increased',mode)]+=1; break
    if list(df['iters_total'])!=list(range(len(df))): issues['iters_total']+=1
    if np.any(np.diff(df['nf'].values)<0) or df['nf'].values[-1]>s.nf: issues['nf col']+=1
    if np.any(np.diff(df['nx'].values)<0) or df['nx'].values[-1]>s.nx: issues['nx col']+=1
    if np.any(np.diff(runs)<0): issues['runs col']+=1
    if df['npt'].min()<2 or df['npt'].max()>npt: issues['npt col']+=1
    # json
    try:
        d=s.to_dict(); js=json.dumps(d, allow_nan=False); s2=dfols.OptimResults.from_dict(json.loads(js))
        if str(s2)!=str(s): issues['str differs']+=1
    except Exception as e: issues[('json', type(e).__name__, str(e)[:50])]+=1
for k,v in sorted(issues.items(), key=str): print(k,v)
for k,v in flags.items(): print(k,v)
