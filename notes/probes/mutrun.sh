#!/bin/bash
# usage: mutrun.sh <name> <file> <python-replace-expr> <probe> <args...>
name=$1; file=$2; old=$3; new=$4; shift 4
rm -rf /tmp/scratch/mut/$name && mkdir -p /tmp/scratch/mut/$name && cp -r /tmp/scratch/fixrepo/dfols /tmp/scratch/mut/$name/
/venv/bin/python - "$file" "$old" "$new" "$name" <<'PY'
import sys
f,old,new,name=sys.argv[1:5]
p=f'/tmp/scratch/mut/{name}/dfols/{f}'
s=open(p).read()
assert s.count(old)>=1, 'pattern not found'
s=s.replace(old,new,1); open(p,'w').write(s)
PY
[ $? -ne 0 ] && exit 1
(cd /tmp/scratch/mut/$name && /venv/bin/python -m pytest -q -p no:cacheprovider -x dfols 2>&1 | tail -1)
PYTHONPATH=/tmp/scratch/mut/$name OMP_NUM_THREADS=1 timeout 600 /venv/bin/python "$@" 2>&1 | grep -v "^NaN enc" | tail -6
