import numpy as np, dfols, warnings, sys
warnings.simplefilter('ignore')
from collections import Counter
def rosen(x): return np.array([10.0 * (x[1] - x[0] ** 2), 1.0 - x[0], 0.1*x[0]])
x0=np.array([-1.2,1.0])
issues=Counter()
def run(k, fault, **kw):
    rec=[]
    def f(x):
        r=rosen(x); 
        if len(rec)+1==k:
            if fault=='exc': rec.append((x.copy(),None)); raise RuntimeError('boom')
            r = r*0+fault if not isinstance(fault,str) else r
        rec.append((x.copy(),r.copy())); return r
    try:
        s=dfols.solve(f,x0,**kw)
    except RuntimeError as e:
        return ('raised', len(rec)==k), rec, None
    except Exception as e:
        return ('EXC',type(e).__name__, str(e)[:60]), rec, None
    return None, rec, s
for cfg_name,kw in [('plain',dict(maxfun=60)),('bounds',dict(maxfun=60,bounds=(np.array([-2.,-2.]),np.array([0.9,0.9])))), ('restarts',dict(maxfun=80, rhoend=1e-4, user_params={'restarts.use_restarts':True})),
                    ('avg',dict(maxfun=80, nsamples=lambda d,r,i,n: 2))]:
    _,rec0,s0 = run(10**9,None,**kw)
    nf=len(rec0)
    for fault in [np.nan, np.inf, -np.inf, 1e200, 'exc']:
        for k in range(1,nf+1):
            st,rec,s = run(k,fault,**kw)
            if st is not None:
                if st!=('raised',True): issues[(cfg_name,str(fault),)+st]+=1
                continue
            finite_before=[r@r for x,r in rec[:k-1] if np.all(np.isfinite(r))]
            if not np.all(np.isfinite(s.x)): issues[(cfg_name,str(fault),'x nonfinite')]+=1
            if finite_before:
                if not np.isfinite(s.obj): issues[(cfg_name,str(fault),'nonfinite obj returned', s.flag, s.msg[:25])]+=1; 
                elif 'avg' not in cfg_name and s.obj>min(finite_before)*(1+1e-14): issues[(cfg_name,str(fault),'worse than before fault', s.flag)]+=1
            if s.flag==0 and not np.isfinite(s.obj): issues[(cfg_name,str(fault),'success with nonfinite')]+=1
            if len(rec)>kw['maxfun']: issues[(cfg_name,'budget')]+=1
for k,v in sorted(issues.items(), key=str): print(k,v)
