import sys, atheris
with atheris.instrument_imports(include=['dfols.trust_region']):
    import dfols.trust_region as tr
import numpy as np
from hypothesis import given, strategies as st, settings
cnt=[0]
@settings(database=None, deadline=None)
@given(st.integers(1,5).flatmap(lambda n: st.tuples(st.lists(st.floats(-10,10),min_size=n,max_size=n), st.lists(st.floats(-3,3),min_size=n*n,max_size=n*n), st.floats(1e-3,10), st.lists(st.floats(0,2),min_size=2*n,max_size=2*n))))
def test(args):
    g,B,delta,bd=args; n=len(g)
    g=np.array(g); B=np.array(B).reshape(n,n); H=B+B.T
    x=np.zeros(n); sl=-np.array(bd[:n]); su=np.array(bd[n:])
    d,gn,c=tr.trsbox(x,g.copy(),H,sl,su,delta)
    cnt[0]+=1
    assert np.all(d>=sl) and np.all(d<=su) and np.linalg.norm(d)<=delta*(1+1e-8)
atheris.Setup(sys.argv, test.hypothesis.fuzz_one_input)
atheris.Fuzz()
