import numpy as np, dfols, warnings, sys, time
warnings.simplefilter('ignore')
from collections import Counter
rng = np.random.default_rng(int(sys.argv[1]) if len(sys.argv)>1 else 0)
N = int(sys.argv[2]) if len(sys.argv)>2 else 40
issues=Counter(); flags=Counter(); gaps=[]
def fista(A,b,prox,h,n):
    L = 2*np.linalg.norm(A,2)**2+1e-12
    x=np.zeros(n); y=x.copy(); t=1
    for it in range(400000):
        z=y-2*A.T@(A@y-b)/L
        xn=prox(z,1/L); tn=(1+np.sqrt(1+4*t*t))/2
        y=xn+(t-1)/tn*(xn-x)
        if it>50 and np.linalg.norm(xn-x)<=1e-15*(1+np.linalg.norm(x)): x=xn; break
        x=xn;t=tn
    return np.sum((A@x-b)**2)+h(x)
t0=time.time()
for t in range(N):
    n = int(rng.integers(1,6)); m=int(rng.integers(n,n+4))
    A = rng.normal(size=(m,n)); b=rng.normal(size=m)*float(rng.choice([1,5]))
    lam = 10.0**rng.integers(-3,2)
    kind=str(rng.choice(['l1','l2']))
    if kind=='l1':
        h=lambda x: lam*np.abs(x).sum(); prox=lambda x,u: np.sign(x)*np.maximum(np.abs(x)-lam*u,0); lh=lam*np.sqrt(n)
    else:
        h=lambda x: lam*np.linalg.norm(x); prox=lambda x,u: x*max(0,1-lam*u/max(np.linalg.norm(x),1e-300)); lh=lam
    x0 = rng.normal(size=n)*float(rng.choice([0.1,1,5]))
    Fs=fista(A,b,prox,h,n)
    try: s = dfols.solve(lambda x: A@x-b, x0, h=h, lh=lh, prox_uh=prox)
    except Exception as e: issues[('EXC '+type(e).__name__+': '+str(e)[:80])]+=1; continue
    flags[(s.flag, s.msg[:50])]+=1
    gap=(s.obj-Fs)/(1+Fs); gaps.append((gap,kind,lam,n,s.flag,s.nf))
    if gap>1e-3 or s.flag!=0 or gap<-1e-9: issues[('subopt' if gap>1e-3 else 'neg' if gap<-1e-9 else 'flag',kind,lam,s.flag)]+=1
gaps.sort(reverse=True)
for k,v in sorted(issues.items(), key=str): print(k,v)
for k,v in flags.items(): print(k,v)
print(gaps[:6]); print('time',time.time()-t0)
