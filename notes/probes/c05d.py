import numpy as np, dfols, warnings, sys
from scipy.optimize import lsq_linear
warnings.simplefilter('ignore')
from collections import Counter
rng = np.random.default_rng(int(sys.argv[1]) if len(sys.argv)>1 else 0)
N = int(sys.argv[2]) if len(sys.argv)>2 else 300
issues=Counter(); flags=Counter(); worst=0
for t in range(N):
    n = int(rng.integers(1,9)); m=int(rng.integers(1,n+6))
    U,_ = np.linalg.qr(rng.normal(size=(m,m))); V,_=np.linalg.qr(rng.normal(size=(n,n)))
    k=min(m,n); sv = 10.0**rng.uniform(-3,0,size=k); sv[0]=1.0; sv*=10**rng.uniform(-1,1)
    A = U[:,:k]@np.diag(sv)@V[:,:k].T
    b = rng.normal(size=m)*float(rng.choice([0.1,1,10]))
    f = lambda x: A@x-b
    x0 = rng.normal(size=n)*float(rng.choice([0.1,1,10,100]))
    kw={}
    bounded = rng.random()<0.6
    xs = np.linalg.lstsq(A,b,rcond=None)[0]
    if bounded:
        ctr = xs if rng.random()<0.5 else x0
        w = float(rng.choice([0.5,3,30]))
        xl = ctr - rng.random(n)*w + float(rng.choice([0,0.7*w])); xu = xl + 0.1*w+rng.random(n)*w
        kw['bounds']=(xl,xu)
        if rng.random()<0.4: kw['scaling_within_bounds']=True
        rb = 0.1 if kw.get('scaling_within_bounds') else 0.1*max(np.max(np.abs(x0)),1)
        gap = 1.0 if kw.get('scaling_within_bounds') else np.min(xu-xl)
        if gap<2*rb: kw['rhobeg']=gap/2.0001
        ref = lsq_linear(A,b,bounds=(xl,xu), method='bvls', tol=1e-15, max_iter=10000)
        fstar = 2*ref.cost
    else:
        fstar = np.sum((A@xs-b)**2)
    if bounded:
        on=rng.random(n)<0.4; x0=np.where(on, np.where(rng.random(n)<0.5, xl, xu), x0); 
    if rng.random()<0.4: kw["npt"]=int(rng.integers(n+1,2*n+2))
    try:
        s = dfols.solve(f, x0, **kw)
    except Exception as e:
        issues['EXC '+type(e).__name__+': '+str(e)[:80]]+=1; continue
    flags[(s.flag, s.msg[:60])]+=1
    if s.flag==-1: continue
    gap = (s.obj - fstar)/(1+fstar)
    worst=max(worst,gap)
    if gap>1e-6 or s.flag!=0 or gap<-1e-9:
        issues[('subopt' if gap>1e-6 else 'flag' if s.flag!=0 else 'neg', bounded, kw.get('scaling_within_bounds',False), s.flag, s.msg[:30])]+=1
        print(t, 'gap',gap,'n',n,'m',m,'nf',s.nf, {k:v for k,v in kw.items() if k!='bounds'}, 'x0scale', np.abs(x0).max(), s.msg)
for k,v in sorted(issues.items(), key=str): print(k,v)
for k,v in flags.items(): print(k,v)
print('worst',worst)
