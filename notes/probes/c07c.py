import numpy as np, dfols, warnings, sys, signal
from dfols.params import ParameterList
from dfols.util import pball
warnings.simplefilter('ignore')
def rosen(x): return np.array([10.0 * (x[1] - x[0] ** 2), 1.0 - x[0]])
x0=np.array([-1.2,1.0])
P=ParameterList(2,3,300)
class TO(Exception): pass
def handler(s,f): raise TO()
signal.signal(signal.SIGALRM, handler)
lam=0.1
bases={'plain':dict(), 'noisy_restarts':dict(objfun_has_noise=True), 
 'hard':dict(user={'restarts.use_restarts':True,'restarts.use_soft_restarts':False}),
 'proj':dict(projections=[lambda x: pball(x,np.array([0.5,1.0]),1.0)]),
 'reg':dict(h=lambda x: lam*np.abs(x).sum(), lh=lam*np.sqrt(2), prox_uh=lambda x,u: np.sign(x)*np.maximum(np.abs(x)-lam*u,0)),
 'grow':dict(user={'growing.ndirs_initial':1})}
seen=set()
for bname,b in bases.items():
  for key in P.params:
    t,none_ok,lo,hi = P.param_type(key,3)
    vals=[]
    if t=='float':
        if lo is not None: vals.append(float(lo))
        if hi is not None: vals.append(float(hi))
    elif t=='int':
        if lo is not None: vals.append(int(lo))
        if hi is not None: vals.append(int(hi))
    else: continue
    for v in vals:
        up=dict(b.get('user',{})); 
        if key in up: continue
        up[key]=v
        kw={k:vv for k,vv in b.items() if k!='user'}
        signal.alarm(30)
        try:
            s=dfols.solve(rosen,x0,user_params=up,maxfun=(60 if bname in('reg','proj') else 200), npt=3, **kw)
            signal.alarm(0); str(s)
        except TO:
            print(bname,key,v,'TIMEOUT')
        except TypeError as e:
            signal.alarm(0)
            if 'OptimResults' not in str(e): print(bname,key,v,'EXC TypeError',str(e)[:80])
        except Exception as e:
            signal.alarm(0); print(bname,key,v,'EXC',type(e).__name__,str(e)[:80])
