import numpy as np, dfols, warnings, sys
warnings.simplefilter('ignore')
from collections import Counter
rng = np.random.default_rng(int(sys.argv[1]) if len(sys.argv)>1 else 0)
N = int(sys.argv[2]) if len(sys.argv)>2 else 300
issues=Counter(); ratios=[]; fw=[]
eps=2.2e-16
for t in range(N):
    n = int(rng.integers(1,5)); m=int(rng.integers(1,6))
    A = rng.normal(size=(m,n)); b=rng.normal(size=m); nl=float(rng.choice([0,0.3]))
    rec=[]
    def f(x):
        r=A@x-b+nl*np.sin(2*x.sum()+np.arange(m)); rec.append((x.copy(),r.copy())); return r
    x0 = rng.normal(size=n)*float(rng.choice([1,100]))
    kw={}; up={}
    npt=int(rng.integers(n+1,2*n+2)); kw['npt']=npt
    if rng.random()<0.5:
        kw['bounds']=(x0-0.5-rng.random(n)*3, x0+0.5+rng.random(n)*3)
        if rng.random()<0.5: kw['scaling_within_bounds']=True; kw['rhobeg']=0.1
    mode=str(rng.choice(['none','none','soft','hard']))
    if mode!='none':
        up['restarts.use_restarts']=True
        if mode=='hard': up['restarts.use_soft_restarts']=False
    kw['maxfun']=int(rng.choice([npt+3,30,100,300]))
    try: s=dfols.solve(f,x0,user_params=up,rhoend=float(rng.choice([1e-8,1e-4])),**kw)
    except Exception as e: issues[('EXC',type(e).__name__,str(e)[:60])]+=1; continue
    if s.jacobian is None: issues['nojac']+=1; continue
    nums=s.jacmin_eval_nums
    if nums is None or np.any(nums<1) or np.any(nums>len(rec)): issues[('bad nums',mode)]+=1; continue
    X=np.array([rec[k-1][0] for k in nums]); R=np.array([rec[k-1][1] for k in nums])
    Xc=X-X.mean(0); Rc=R-R.mean(0); J=s.jacobian
    E=Rc-Xc@J.T
    g=Xc.T@E
    nXc=np.linalg.norm(Xc,2); 
    scale=eps*nXc*(np.linalg.norm(E)+nXc*np.linalg.norm(J,2)+np.linalg.norm(Rc)) + eps*np.linalg.norm(J,2)*np.abs(X).max()*nXc*np.sqrt(len(nums))
    ratio=np.linalg.norm(g)/scale
    ratios.append((ratio,mode,s.nruns,npt-n-1,kw.get('scaling_within_bounds',False)))
    if nl==0:
        smin=np.linalg.svd(Xc,compute_uv=False)[n-1] if len(nums)>n else 0
        if smin>0:
            fscale=eps*(np.linalg.norm(A,2)*np.abs(X).max()*np.sqrt(n)+np.linalg.norm(b))*np.sqrt(len(nums))/smin
            fw.append((np.linalg.norm(J-A)/fscale, mode, s.nruns))
ratios.sort(key=lambda z:-z[0]); fw.sort(key=lambda z:-z[0])
for k,v in sorted(issues.items(), key=str): print(k,v)
print('backward ratios top', ratios[:12]); print('median', ratios[len(ratios)//2])
print('forward top', fw[:8])
