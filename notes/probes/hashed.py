import numpy as np, dfols, warnings, sys, signal, hashlib, struct
warnings.simplefilter('ignore')
from collections import Counter
class TO(Exception): pass
def _h(s,f): raise TO()
signal.signal(signal.SIGALRM,_h)
rng = np.random.default_rng(int(sys.argv[1]) if len(sys.argv)>1 else 0)
N = int(sys.argv[2]) if len(sys.argv)>2 else 300
issues=Counter(); flags=Counter()
def prf(seed,x,m):
    hsh=hashlib.blake2b(x.tobytes(),digest_size=8*m,key=struct.pack('<Q',seed)).digest()
    u=np.frombuffer(hsh,dtype=np.uint64).astype(float)/2**64
    return 2*u-1
for t in range(N):
    n = int(rng.integers(1,4)); m=int(rng.integers(1,5))
    A = rng.normal(size=(m,n)); b=rng.normal(size=m); amp=float(rng.choice([0.01,0.3,3.0]))
    fam=str(rng.choice(['hashed','script']))
    script=rng.integers(-4,5,size=(int(rng.integers(1,12)),m)).astype(float)
    rec=[]
    def f(x):
        if fam=='hashed': r=A@x-b+amp*prf(t,x,m)
        else: r=script[len(rec)%len(script)].copy()
        rec.append((x.copy(),r.copy())); return r
    x0 = rng.normal(size=n)
    maxfun = int(rng.choice([n+2,10,30,60,150]))
    up = {'logging.save_diagnostic_info':True,'logging.save_poisedness':False}
    mode = str(rng.choice(['none','soft','hard']))
    if mode!='none':
        up['restarts.use_restarts']=True
        if mode=='hard': up['restarts.use_soft_restarts']=False
    kw={}
    if rng.random()<0.5: kw['bounds']=(x0-0.3-rng.random(n), x0+0.3+rng.random(n))
    if rng.random()<0.3: kw['npt']=min(2*n+1,(n+1)*(n+2)//2)
    signal.alarm(10)
    try:
        s = dfols.solve(f, x0, maxfun=maxfun, rhoend=1e-5, user_params=up, **kw); signal.alarm(0)
    except TO: issues[('TIMEOUT',fam,mode)]+=1; continue
    except Exception as e:
        signal.alarm(0); issues[('EXC',fam,mode,type(e).__name__,str(e)[:70])]+=1; continue
    flags[(s.flag, s.msg[:50])]+=1
    if len(rec)>maxfun or s.nf!=len(rec): issues[('budget',fam)]+=1
    k=s.xmin_eval_num
    if not(1<=k<=len(rec)) or not np.allclose(rec[k-1][0],s.x,rtol=1e-13,atol=1e-13) or (not np.allclose(rec[k-1][1],s.resid,rtol=1e-13,atol=1e-13)):
        issues[('C03',fam,mode,s.nruns>1,k)]+=1
    if fam=='hashed':
        best=min(r@r for x,r in rec)
        if not s.obj<=best*(1+1e-14): issues[('C04 lost',mode,s.flag,s.msg[:30])]+=1
    df=s.diagnostic_info
    if df is not None and len(df):
        rho=df['rho'].values; delta=df['delta'].values; runs=df['nruns'].values; fk=df['fk'].values
        if np.any(delta<rho) or np.any(rho<=0) or np.any(delta>1e10): issues[('C18 radii',fam)]+=1
        for i in range(1,len(df)):
            if runs[i]==runs[i-1] and rho[i]>rho[i-1]: issues[('C18 rho up',fam)]+=1; break
            if fam=='hashed' and runs[i]==runs[i-1] and fk[i]>fk[i-1]: issues[('C18 fk up',mode)]+=1; break
for k,v in sorted(issues.items(), key=str): print(k,v)
for k,v in flags.items(): print(k,v)
