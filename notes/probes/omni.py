import os, sys, json, signal, hashlib, struct, logging, re, warnings, copy
os.environ['OMP_NUM_THREADS']='1'
import numpy as np, dfols
import dfols.model as M
warnings.simplefilter('ignore')
from collections import Counter
from dfols.util import pball
class TO(Exception): pass
def _h(s,f): raise TO()
signal.signal(signal.SIGALRM,_h)
class H(logging.Handler):
    def __init__(s): super().__init__(); s.recs=[]
    def emit(s, r): s.recs.append(r.getMessage())
hd=H(); lg=logging.getLogger('dfols'); lg.addHandler(hd); lg.setLevel(logging.INFO); lg.propagate=False
pat = re.compile(r"Function eval (\d+) at point (\d+) has")
rng = np.random.default_rng(int(sys.argv[1]) if len(sys.argv)>1 else 0)
N = int(sys.argv[2]) if len(sys.argv)>2 else 300
issues=Counter(); flags=Counter(); eps=2.2e-16
def prf(seed,x,m):
    hsh=hashlib.blake2b(x.tobytes(),digest_size=8*m,key=struct.pack('<Q',seed)).digest()
    return 2*np.frombuffer(hsh,dtype=np.uint64).astype(float)/2**64-1
fits=[0]
orig=M.Model.interpolate_mini_models_svd
def w(self,*a,**k):
    fits[0]+=1
    if fits[0]>30000: raise TO()
    return orig(self,*a,**k)
M.Model.interpolate_mini_models_svd=w
for t in range(N):
    n = int(rng.integers(1,5)); m=int(rng.integers(1,6))
    A = rng.normal(size=(m,n)); b=rng.normal(size=m)
    fam=str(rng.choice(['lin','sinlin','hashed','script','rosen']))
    amp=float(rng.choice([0.01,0.3,3.0])); script=rng.integers(-3,4,size=(int(rng.integers(1,10)),m)).astype(float)
    noise=float(rng.choice([0,0,1e-2]))
    rec=[]
    def f(x):
        if fam=='lin': r=A@x-b
        elif fam=='sinlin': r=A@x-b+0.5*np.sin(3*x.sum()+np.arange(m))
        elif fam=='hashed': r=A@x-b+amp*prf(t,x,m)
        elif fam=='script': r=script[len(rec)%len(script)].copy()
        else: r=np.concatenate([10*(x[1:]-x[:-1]**2),1-x[:-1],[0.1*x[-1]]])[:max(m,1)] if n>1 else np.array([x[0]-1.0]*m)
        if noise: r=r*(1+noise*prf(t+10**6+len(rec),x,len(r)))
        rec.append((x.copy(),r.copy())); return r
    if fam=='rosen': m=len(f(np.zeros(n))); rec.clear()
    deterministic = (noise==0 and fam!='script')
    x0 = np.round(rng.normal(size=n)*float(rng.choice([1,10])),2)
    kw={}; up={}
    cons=str(rng.choice(['unc','box','box','onesided','scaled']))
    xl=-np.inf*np.ones(n); xu=np.inf*np.ones(n)
    if cons!='unc':
        xl=np.round(x0-rng.random(n)*3+rng.choice([0,0,1.0],size=n),2); xu=np.round(xl+0.4+rng.random(n)*4,2)
        if cons=='onesided':
            if rng.random()<0.5: kw['bounds']=(xl,None); xu=np.inf*np.ones(n)
            else: kw['bounds']=(None,xu); xl=-np.inf*np.ones(n)
        else: kw['bounds']=(xl,xu)
        for i in range(n):
            r=rng.random()
            if r<0.15 and np.isfinite(xl[i]): x0[i]=xl[i]
            elif r<0.3 and np.isfinite(xu[i]): x0[i]=xu[i]
        if cons=='scaled': kw['scaling_within_bounds']=True
    gap=np.min(xu-xl) if cons!='scaled' else 1.0
    rhobeg=min(0.1*max(np.abs(x0).max(),1) if cons!='scaled' else 0.1, gap/2.001)*float(rng.choice([1,0.3]))
    rhoend=rhobeg*10.0**rng.integers(-7,-1)
    npt=int(rng.integers(n+1,min(2*n+1,(n+1)*(n+2)//2)+1))
    maxfun=int(rng.choice([1,2,npt-1,npt,npt+1,10,30,60,150])); maxfun=max(maxfun,1)
    mode=str(rng.choice(['none','none','soft','hard']))
    sc=1.0
    if mode!='none':
        up['restarts.use_restarts']=True
        if mode=='hard':
            up['restarts.use_soft_restarts']=False
            if rng.random()<0.3: up['restarts.hard.use_old_rk']=False
        if rng.random()<0.4: sc=float(rng.choice([0.1,0.5])); up['restarts.rhoend_scale']=sc
        if rng.random()<0.3 and n>1:
            up['restarts.increase_npt']=True; up['restarts.max_npt']=min(npt+int(rng.integers(1,3)),(n+1)*(n+2)//2)
        if rng.random()<0.4: up['restarts.max_unsuccessful_restarts']=int(rng.choice([1,2,3]))
        if rng.random()<0.3: up['restarts.auto_detect.history']=int(rng.choice([3,6]))
        if rng.random()<0.2: up['restarts.soft.move_xk']=False
    opt=rng.random()
    if opt<0.12 and n>1: up['growing.ndirs_initial']=int(rng.integers(1,n)); npt=n+1
    elif opt<0.2: up['init.random_initial_directions']=True; up['init.random_directions_make_orthogonal']=bool(rng.random()<0.5)
    elif opt<0.3 and npt>n+1: up['regression.num_extra_steps']=int(rng.integers(1,3)); up['regression.momentum_extra_steps']=bool(rng.random()<0.5)
    if rng.random()<0.2: up['slow.max_slow_iters']=int(rng.choice([1,3])); up['slow.thresh_for_slow']=float(rng.choice([1e-4,1e-1]))
    if rng.random()<0.3: kw['objfun_has_noise']=True
    k=int(rng.choice([1,1,1,2,3]))
    if k>1: kw['nsamples']=lambda d,r,i,nr: k
    up['logging.save_diagnostic_info']=True; up['logging.save_poisedness']=bool(rng.random()<0.1)
    hd.recs.clear(); fits[0]=0
    np.random.seed(int(rng.integers(0,2**31)))
    x0c=x0.copy(); upc=dict(up)
    signal.alarm(60)
    try:
        s=dfols.solve(f,x0,npt=npt,rhobeg=rhobeg,rhoend=rhoend,maxfun=maxfun,user_params=up,**kw); signal.alarm(0)
    except TO:
        issues[('NO RETURN', mode, fits[0]>30000)]+=1; print('NORETURN',t,up,{a:b2 for a,b2 in kw.items() if a not in('bounds','nsamples')}); continue
    except Exception as e:
        signal.alarm(0); key=('EXC',type(e).__name__,str(e)[:70]); issues[key]+=1
        if issues[key]<3: print('EXC',t,key,fam,cons,mode,up,{a:b2 for a,b2 in kw.items() if a not in('bounds','nsamples')},'npt',npt,'n',n,'maxfun',maxfun)
        continue
    flags[(s.flag,s.msg[:45])]+=1
    if s.flag==-1: issues[('input error?!',s.msg[:60])]+=1; continue
    tag=(fam,cons,mode)
    # C01
    if any(np.any(x<xl) or np.any(x>xu) for x,_ in rec) or np.any(s.x<xl) or np.any(s.x>xu): issues[('C01',cons)]+=1
    # C02
    if len(rec)>maxfun or s.nf!=len(rec): issues[('C02 budget/nf',mode)]+=1
    ev=[tuple(map(int,pat.match(r).groups())) for r in hd.recs if pat.match(r)]
    pts=[p for _,p in ev]
    if [e for e,_ in ev]!=list(range(1,len(rec)+1)): issues['C02 evalnums']+=1
    elif pts and (pts[0]!=1 or any(pts[i+1]-pts[i] not in (0,1) for i in range(len(pts)-1)) or s.nx!=pts[-1]): issues[('C02 points',mode)]+=1
    if k==1 and s.nx!=s.nf: issues['C02 nx!=nf']+=1
    # C03
    kk=s.xmin_eval_num
    if not (1<=kk<=s.nx): issues[('C03 range',kk,mode)]+=1
    else:
        idx=[i for i,p in enumerate(pts) if p==kk]
        xr=rec[idx[0]][0]; rm=np.mean([rec[i][1] for i in idx],axis=0)
        tol=(8+2*200)*eps*max(1,np.abs(xr).max())*(1+(np.max(xu-xl) if cons=='scaled' else 0))
        if np.abs(xr-s.x).max()>tol: issues[('C03 x',)+tag]+=1
        elif np.abs(rm-s.resid).max()>1e-13*(1+np.abs(rm).max()): issues[('C03 resid',)+tag+(len(idx),)]+=1
        if abs(s.obj-s.resid@s.resid)>1e-13*(1+abs(s.obj)): issues[('C03 obj',)+tag]+=1
    # C04
    if deterministic and k==1:
        best=min(r@r for _,r in rec)
        if not s.obj<=best*(1+1e-14): issues[('C04',)+tag+(s.flag,)]+=1
    # C10
    f0=np.mean([rec[i][1] for i,p in enumerate(pts) if p==1],axis=0); f0=f0@f0
    if s.flag==0 and 'sufficiently small' in s.msg and not s.obj<=max(1e-12,1e-20*f0): issues['C10 small']+=1
    if s.flag==1 and s.nf!=maxfun: issues[('C10 maxfun',mode)]+=1
    if s.flag==0 and not np.isfinite(s.obj): issues['C10 finite']+=1
    if mode=='none' and not kw.get('objfun_has_noise') and s.nruns!=1: issues['C10 nruns']+=1
    if s.flag not in (0,1,2,3,5,-2,-3,-4): issues[('C07 flag',s.flag,mode)]+=1
    df=s.diagnostic_info
    if df is not None and len(df):
        rho=df['rho'].values; delta=df['delta'].values; runs=df['nruns'].values; fk=df['fk'].values
        if s.flag==0 and 'rhoend' in s.msg and abs(rho[-1]-rhoend*sc**runs[-1])>1e-12*rho[-1]: issues[('C10 rhoend',mode)]+=1
        if np.any(delta<rho) or np.any(rho<=0) or np.any(delta>1e10): issues[('C18 radii',)+tag]+=1
        if np.any(rho>rhobeg*(1+1e-12)) or np.any(rho<rhoend*sc**runs*(1-1e-12)): issues[('C18 rho range',mode,sc)]+=1
        for i in range(1,len(df)):
            if runs[i]==runs[i-1] and rho[i]>rho[i-1]: issues[('C18 rho up',)+tag]+=1; break
            if deterministic and k==1 and runs[i]==runs[i-1] and fk[i]>fk[i-1]: issues[('C18 fk up',)+tag]+=1; break
        if list(df['iters_total'])!=list(range(len(df))) or np.any(np.diff(df['nf'].values)<0) or df['nf'].values[-1]>s.nf: issues['C18 table']+=1
        maxnpt=up.get('restarts.max_npt',npt) if up.get('restarts.increase_npt') else npt
        if df['npt'].min()<2 or df['npt'].max()>maxnpt: issues[('C18 npt',df['npt'].max(),maxnpt)]+=1
    # C19 inputs
    if not np.array_equal(x0,x0c) or up!=upc: issues['C19 inputs']+=1
    # C20
    try:
        d=s.to_dict(); js=json.dumps(d, allow_nan=not np.all(np.isfinite(np.r_[s.x,s.resid,s.obj]))); s2=dfols.OptimResults.from_dict(json.loads(js))
        if str(s2)!=str(s): issues['C20 str']+=1
    except Exception as e: issues[('C20',type(e).__name__,str(e)[:50])]+=1
for kx,v in sorted(issues.items(), key=str): print(kx,v)
for kx,v in sorted(flags.items(), key=str): print(kx,v)
