import numpy as np, dfols, warnings, sys, logging, re, signal
warnings.simplefilter('ignore')
class TO(Exception): pass
def _h(s,f): raise TO()
signal.signal(signal.SIGALRM,_h)
class H(logging.Handler):
    def __init__(s): super().__init__(); s.recs=[]
    def emit(s, r): s.recs.append(r.getMessage())
h=H(); lg=logging.getLogger('dfols'); lg.addHandler(h); lg.setLevel(logging.INFO); lg.propagate=False
rng = np.random.default_rng(int(sys.argv[1]) if len(sys.argv)>1 else 0)
N = int(sys.argv[2]) if len(sys.argv)>2 else 300
pat = re.compile(r"Function eval (\d+) at point (\d+) has")
from collections import Counter
issues=Counter()
for t in range(N):
    n = int(rng.integers(1,4)); m=int(rng.integers(1,5))
    A = rng.normal(size=(m,n)); b=rng.normal(size=m)
    noise = float(rng.choice([0,1e-2])); nrng = np.random.default_rng(t)
    timeline=[]
    def f(x):
        timeline.append(('eval',))
        return (A@x-b + 0.3*np.sin(x.sum()))*(1+noise*nrng.normal(size=m))
    x0 = rng.normal(size=n)
    maxfun = int(rng.choice([1,2,3,n+1,n+2,5,10,30,60,120]))
    table=rng.integers(0,4,size=(3,3))
    def ns(delta,rho,it,nr):
        v=int(table[it%3, nr%3]); timeline.append(('ask',v)); return v
    up = {}
    if rng.random()<0.6:
        up['restarts.use_restarts']=True
        if rng.random()<0.5: up['restarts.use_soft_restarts']=False
        if rng.random()<0.5 and n>1:
            up['restarts.increase_npt']=True; up['restarts.max_npt']=min(n+1+int(rng.integers(1,3)),(n+1)*(n+2)//2)
        if rng.random()<0.3: up['restarts.hard.use_old_rk']=False
    kw={}
    if rng.random()<0.3: kw['npt']=min(2*n+1,(n+1)*(n+2)//2)
    if rng.random()<0.3: up['regression.num_extra_steps']=1
    h.recs.clear()
    signal.alarm(10)
    try:
        s = dfols.solve(f, x0, maxfun=maxfun, nsamples=ns, rhoend=1e-4, user_params=up, objfun_has_noise=bool(rng.random()<0.3), **kw)
        signal.alarm(0)
    except TO: issues['TIMEOUT']+=1; continue
    except Exception as e:
        signal.alarm(0); issues['EXC '+type(e).__name__+': '+str(e)[:80]]+=1; continue
    ev=[tuple(map(int,pat.match(r).groups())) for r in h.recs if pat.match(r)]
    pts=[p for _,p in ev]
    # walk timeline: assign point numbers to evals
    i=0; asks_since=[]; last_ask=None; per_point={}; allowed={}
    cur=None
    for item in timeline:
        if item[0]=='ask':
            asks_since.append(item[1]); last_ask=item[1]
        else:
            p=pts[i]; i+=1
            if p!=cur:
                cur=p; allowed[p]=set(max(a,1) for a in asks_since) if asks_since else {max(last_ask,1)}
                asks_since=[]
            per_point[p]=per_point.get(p,0)+1
    lastp=pts[-1]
    for p,c in per_point.items():
        if c not in allowed[p]:
            if p==lastp and s.nf==maxfun and c<max(allowed[p]): continue
            issues[('sample count', c, tuple(sorted(allowed[p])), p==1, s.nruns)]+=1
print(issues)
