import numpy as np, warnings, sys
from dfols.model import Model
from collections import Counter
rng = np.random.default_rng(int(sys.argv[1]) if len(sys.argv)>1 else 0)
N = int(sys.argv[2]) if len(sys.argv)>2 else 500
issues=Counter(); worst=Counter(); eps=2.2e-16
for t in range(N):
    n=int(rng.integers(1,7)); m=int(rng.integers(1,7)); npt=int(rng.integers(n+1,2*n+2))
    base=rng.normal(size=n)*10.0**rng.integers(0,7); spread=10.0**rng.integers(-4,1)*max(1e-6*np.abs(base).max(),1e-3) if rng.random()<0.5 else 10.0**rng.integers(-2,2)
    A=rng.normal(size=(m,n)); b=rng.normal(size=m); gam=float(rng.choice([0,0.5]))
    f=lambda x: A@(x-base)/spread-b+gam*np.sin((x-base).sum()/spread+np.arange(m))
    xl=-1e20*np.ones(n); xu=1e20*np.ones(n)
    model=Model(npt,base.copy(),f(base),xl,xu,[],1,precondition=bool(rng.random()<0.7),do_logging=False)
    nev=1
    def check(tag):
        k_=model.npt()
        ok,_,_,_,_=model.interpolate_mini_models_svd()
        if not ok: issues[(tag,'interp failed')]+=1; return
        Y=np.array([model.xpt(k) for k in range(k_)]); R=model.fval_v[:k_]
        xo=model.xopt()
        W=np.hstack([np.ones((k_,1)),(Y-xo)/max(np.sqrt(np.max(np.sum((Y-xo)**2,1))),1e-300)])
        kap=np.linalg.cond(W)
        pred=np.array([model.model_value(model.xpt(k),d_based_at_xopt=False,with_const_term=True) for k in range(k_)])
        scale=np.abs(R).max()+np.linalg.norm(model.model_jac,2)*np.sqrt(np.max(np.sum((Y-xo)**2,1)))
        E=R-pred
        if k_<=n+1:
            r=np.abs(E).max()/(eps*kap*scale); worst[(tag,'interp')]=max(worst[(tag,'interp')],r)
        else:
            g=W.T@E; r=np.abs(g).max()/(eps*kap*scale*np.sqrt(k_)); worst[(tag,'regr')]=max(worst[(tag,'regr')],r)
        # Lagrange
        cs,gs=model.lagrange_gradient()
        L=cs[None,:]+(Y-xo)@gs   # L[j,k]=L_k(y_j)
        if k_<=n+1:
            r=np.abs(L-np.eye(k_)).max()/(eps*kap); worst[(tag,'lag')]=max(worst[(tag,'lag')],r)
        else:
            r=np.abs(L.sum(1)-1).max()/(eps*kap*k_); worst[(tag,'lagsum')]=max(worst[(tag,'lagsum')],r)
        return kap
    # build: add points
    for k in range(1,npt):
        while True:
            s=rng.normal(size=n)*spread
            break
        nev+=1; model.change_point(k,s+ (model.xopt() if rng.random()<0.5 else 0),f(model.xbase+s),nev)
        if rng.random()<0.3 and model.npt()>=2: check('grow')
    check('full')
    for step in range(int(rng.integers(1,15))):
        op=rng.choice(['replace','shift','shiftv'])
        if op=='replace':
            k=int(rng.integers(0,npt)); s=model.xopt()+rng.normal(size=n)*spread*10.0**rng.uniform(-2,0.5)
            nev+=1; model.change_point(k,s,f(model.xbase+s),nev)
        else:
            absP=model.xbase+model.xopt()+rng.normal(size=(5,n))*spread
            model.interpolate_mini_models_svd()
            before=[model.model_value(p-model.xbase,d_based_at_xopt=False,with_const_term=True) for p in absP]
            g0,H0=model.build_full_model()
            sh=model.xopt() if op=='shift' else rng.normal(size=n)*spread
            model.shift_base(sh.copy())
            after=[model.model_value(p-model.xbase,d_based_at_xopt=False,with_const_term=True) for p in absP]
            g1,H1=model.build_full_model()
            sc=np.abs(before).max()+1e-300
            r=np.abs(np.array(before)-np.array(after)).max()/(eps*sc*(1+np.abs(model.xbase).max()/spread)); worst['shift val']=max(worst['shift val'],r)
            r=np.abs(g0-g1).max()/(eps*(np.abs(g0).max()+1e-300)*(1+np.abs(model.xbase).max()/spread)); worst['shift g']=max(worst['shift g'],r)
        check('after '+str(op))
print({k:float('%.3g'%v) for k,v in worst.items()}); print(issues)
