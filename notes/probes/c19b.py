import numpy as np, dfols, warnings, sys, copy
warnings.simplefilter('ignore')
from collections import Counter
from dfols.util import pball
rng = np.random.default_rng(int(sys.argv[1]) if len(sys.argv)>1 else 0)
N = int(sys.argv[2]) if len(sys.argv)>2 else 200
issues=Counter()
for t in range(N):
    n = int(rng.integers(1,5)); m=int(rng.integers(1,6))
    A = rng.normal(size=(m,n)); b=rng.normal(size=m)
    x0 = rng.normal(size=n)
    cfg=str(rng.choice(['default','bounded','scaled','convex','regression','regularised','inverse']))
    kw={}; up={}
    if cfg in('bounded','scaled'):
        kw["bounds"]=(x0+0.1, x0+1.5+rng.random(n))
        if cfg=='scaled': kw['scaling_within_bounds']=True; kw['rhobeg']=0.1
    if cfg=='convex':
        c=x0+0.3*rng.normal(size=n); kw['projections']=[lambda x,c=c: pball(x,c,1.0)]
    if cfg=='regression': kw['npt']=2*n+1
    if cfg=='regularised':
        lam=0.1; kw.update(h=lambda x: lam*np.abs(x).sum(), lh=lam*np.sqrt(n), prox_uh=lambda x,u: np.sign(x)*np.maximum(np.abs(x)-lam*u,0)); kw['maxfun']=40
    if cfg=='inverse':
        n=4;m=2; A = rng.normal(size=(m,n)); b=rng.normal(size=m); x0=rng.normal(size=n)
    seqs=[]
    x0c=x0.copy(); bc=copy.deepcopy(kw.get('bounds')); upc=dict(up)
    for rep,seed in enumerate([0,12345]):
        np.random.seed(seed)
        rec=[]
        def f(x): rec.append(x.copy()); return A@x-b+0.3*np.sin(x.sum())
        try:
            s=dfols.solve(f,x0,user_params=up,**kw)
        except Exception as e:
            issues[('EXC',cfg,type(e).__name__,str(e)[:50])]+=1; break
        seqs.append((np.array(rec), s.x, s.obj, s.flag, s.msg))
    if len(seqs)==2:
        a,b2=seqs
        if a[0].shape!=b2[0].shape or not np.array_equal(a[0],b2[0]) or not np.array_equal(a[1],b2[1]) or a[3:]!=b2[3:]:
            issues[('nondeterministic',cfg, m<n)]+=1
    if not np.array_equal(x0,x0c): issues[('x0 modified',cfg)]+=1
    if bc is not None and (not np.array_equal(bc[0],kw['bounds'][0]) or not np.array_equal(bc[1],kw['bounds'][1])): issues[('bounds modified',cfg)]+=1
for k,v in sorted(issues.items(), key=str): print(k,v)
