import numpy as np, dfols, warnings, sys, logging, re
warnings.simplefilter('ignore')
class H(logging.Handler):
    def __init__(s): super().__init__(); s.recs=[]
    def emit(s, r): s.recs.append(r.getMessage())
h=H(); lg=logging.getLogger('dfols'); lg.addHandler(h); lg.setLevel(logging.INFO); lg.propagate=False
rng = np.random.default_rng(int(sys.argv[1]) if len(sys.argv)>1 else 0)
N = int(sys.argv[2]) if len(sys.argv)>2 else 300
pat = re.compile(r"Function eval (\d+) at point (\d+) has")
from collections import Counter
issues=Counter(); flags=Counter()
for t in range(N):
    n = int(rng.integers(1,4)); m=int(rng.integers(1,5))
    A = rng.normal(size=(m,n)); b=rng.normal(size=m)
    noise = rng.choice([0,1e-2])
    rec=[]
    nrng = np.random.default_rng(t)
    def f(x):
        rec.append(x.copy())
        return (A@x-b + 0.3*np.sin(x.sum()))*(1+noise*nrng.normal(size=m))
    x0 = rng.normal(size=n)
    maxfun = int(rng.choice([1,2,3,n+1,n+2,5,10,30,60,120]))
    k = int(rng.choice([1,1,2,3]))
    asked=[]
    def ns(delta,rho,it,nr):
        v = k if rng.random()<0.7 else int(rng.integers(1,4))
        asked.append(v); return v
    up = {}
    if rng.random()<0.6:
        up['restarts.use_restarts']=True
        if rng.random()<0.5: up['restarts.use_soft_restarts']=False
        if rng.random()<0.5:
            up['restarts.increase_npt']=True; up['restarts.max_npt']=n+1+int(rng.integers(1,4))
        if rng.random()<0.3: up['restarts.hard.use_old_rk']=False
    if rng.random()<0.3: up['noise.quit_on_noise_level']=True; up['noise.additive_noise_level']=1e-3
    h.recs.clear()
    try:
        s = dfols.solve(f, x0, maxfun=maxfun, nsamples=ns, rhoend=1e-4, user_params=up, objfun_has_noise=bool(rng.random()<0.3))
    except Exception as e:
        issues['EXC '+type(e).__name__+': '+str(e)[:80]]+=1; continue
    flags[(s.flag, s.msg[:40])]+=1
    nf=len(rec)
    if nf>maxfun: issues['over budget']+=1
    if s.nf!=nf: issues['nf mismatch %d'%(s.nf-nf)]+=1
    ev=[tuple(map(int,pat.match(r).groups())) for r in h.recs if pat.match(r)]
    if [e for e,_ in ev]!=list(range(1,nf+1)): issues['eval numbering']+=1
    pts=[p for _,p in ev]
    ok = all(pts[i+1]-pts[i] in (0,1) for i in range(len(pts)-1)) and (not pts or pts[0]==1)
    if not ok: issues['point numbering gap']+=1; print(t, up, pts[:40])
    if pts and s.nx!=pts[-1]: issues['nx mismatch']+=1
    # same point number -> same x
    for i in range(len(pts)-1):
        if pts[i]==pts[i+1] and not np.array_equal(rec[i],rec[i+1]): issues['same pt diff x']+=1; break
print(issues); print(flags)
