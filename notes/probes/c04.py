import numpy as np, dfols, warnings, sys
warnings.simplefilter('ignore')
from collections import Counter
from dfols.util import pball, pbox
rng = np.random.default_rng(int(sys.argv[1]) if len(sys.argv)>1 else 0)
N = int(sys.argv[2]) if len(sys.argv)>2 else 300
issues=Counter(); flags=Counter()
for t in range(N):
    n = int(rng.integers(1,5)); m=int(rng.integers(1,6))
    A = rng.normal(size=(m,n)); b=rng.normal(size=m); nl = rng.choice([0,0.3,2.0])
    rec=[]
    def f(x):
        r = A@x-b + nl*np.sin(3*x.sum()+np.arange(m))
        rec.append((x.copy(), r.copy()))
        return r
    x0 = rng.normal(size=n)
    maxfun = int(rng.choice([n+2,10,30,60,120]))
    up = {}
    mode = rng.choice(['none','soft','hard'])
    if mode!='none':
        up['restarts.use_restarts']=True
        if mode.startswith('hard'): up['restarts.use_soft_restarts']=False
    kw={}
    cons = rng.choice(['unc','box','proj','proj2'])
    if cons=='box':
        xl = x0 - rng.random(n)*2; xu = x0 + 0.3+rng.random(n)*2
        kw['bounds']=(xl,xu)
    elif cons.startswith('proj'):
        c = x0 + rng.normal(size=n)*0.5; r = 0.5+rng.random()
        P=[lambda x,c=c,r=r: pball(x,c,r)]
        if cons=='proj2':
            a = rng.normal(size=n); a/=np.linalg.norm(a); beta = a@c - 0.3*r
            P.append(lambda x,a=a,beta=beta: x - max(0, a@x-beta)*a)  # halfspace a.x<=beta
        kw['projections']=P
    else:
        if rng.random()<0.5: kw['npt']=int(rng.integers(n+1,2*n+2))
    try:
        s = dfols.solve(f, x0, maxfun=maxfun, rhoend=1e-5, user_params=up, **kw)
    except Exception as e:
        issues['EXC '+type(e).__name__+': '+str(e)[:80]]+=1; continue
    flags[(s.flag, s.msg[:60])]+=1
    best = min(r@r for x,r in rec)
    if not (s.obj <= best*(1+1e-14)+0):
        issues[('lost best', str(cons), str(mode), s.flag, s.msg[:40])]+=1
for k,v in sorted(issues.items(), key=str): print(k,v)
for k,v in flags.items(): print(k,v)
