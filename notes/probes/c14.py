import numpy as np, dfols, warnings, sys
warnings.simplefilter('ignore')
from collections import Counter
rng = np.random.default_rng(int(sys.argv[1]) if len(sys.argv)>1 else 0)
N = int(sys.argv[2]) if len(sys.argv)>2 else 1000
issues=Counter(); worst=Counter()
for t in range(N):
    n=int(rng.integers(1,9)); npt=int(rng.integers(n+1,2*n+2))
    scale=10.0**rng.integers(-2,3)
    rhobeg=scale*10.0**rng.uniform(-2,0)
    xl=rng.normal(size=n)*scale; xu=xl+2*rhobeg*(1+rng.choice([0,1e-9,0.5,3,100],size=n)*rng.random(n))
    xu=np.maximum(xu, xl+2*rhobeg*(1+1e-12))
    x0=np.empty(n)
    for i in range(n):
        r=rng.choice(['int','lo','up','nearlo','nearup','out_lo','out_up','hair_lo','hair_up'])
        g=xu[i]-xl[i]
        x0[i]={'int':xl[i]+g*rng.random(),'lo':xl[i],'up':xu[i],'nearlo':xl[i]+rhobeg*rng.choice([0.005,0.01,0.011,0.5,0.99,1.0]),
               'nearup':xu[i]-rhobeg*rng.choice([0.005,0.01,0.011,0.5,0.99,1.0]),'out_lo':xl[i]-g*rng.random(),'out_up':xu[i]+g*rng.random(),
               'hair_lo':np.nextafter(xl[i],np.inf),'hair_up':np.nextafter(xu[i],-np.inf)}[str(r)]
    rec=[]
    A=rng.normal(size=(3,n))
    def f(x): rec.append(x.copy()); return A@x+np.sin(x.sum())
    try:
        s=dfols.solve(f,x0,bounds=(xl,xu),rhobeg=rhobeg,rhoend=rhobeg*1e-3,npt=npt,maxfun=npt,do_logging=False)
    except Exception as e:
        issues[('EXC',type(e).__name__,str(e)[:70])]+=1; continue
    if s.flag==0 and len(rec)<npt: issues['early success']+=1; continue
    if len(rec)!=npt: issues[('count',len(rec)-npt)]+=1; continue
    X=np.array(rec)
    p0=np.clip(x0,xl,xu)
    if not np.array_equal(X[0],p0): issues['x0 not projected']+=1
    tol=0
    if np.any(X<xl-tol) or np.any(X>xu+tol): issues['out of bounds(>ulp)']+=1
    D=X[1:]-X[0]
    dist=np.linalg.norm(D,axis=1)
    if np.any(dist<0.01*rhobeg*(1-1e-9)) or np.any(dist>2*rhobeg*(1+1e-9)): issues['dist']+=1; print(t,n,npt,dist/rhobeg)
    W=np.hstack([np.ones((npt,1)), (X-X[0])/rhobeg])
    cond=np.linalg.cond(W)
    worst['cond']=max(worst['cond'],cond)
    if np.linalg.matrix_rank(D/rhobeg)<n: issues['rank']+=1
    if cond>1e4: issues['cond']+=1
for k,v in sorted(issues.items(), key=str): print(k,v)
print(dict(worst))
