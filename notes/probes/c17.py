import numpy as np, sys
from dfols.model import Model
from collections import Counter
rng=np.random.default_rng(int(sys.argv[1]) if len(sys.argv)>1 else 0)
N=int(sys.argv[2]) if len(sys.argv)>2 else 2000
issues=Counter()
def obj(rm): 
    return float(np.dot(rm,rm))
for t in range(N):
    n=int(rng.integers(1,4)); m=int(rng.integers(1,4)); npt=int(rng.integers(n+1,2*n+2))
    x0=rng.normal(size=n); xl=x0-5; xu=x0+5
    def rv():
        r=rng.integers(-3,4,size=m).astype(float)
        u=rng.random()
        if u<0.05: r[rng.integers(m)]=np.nan
        elif u<0.08: r[rng.integers(m)]=np.inf
        return r
    r0=rv()
    model=Model(npt,x0.copy(),r0,xl,xu,[],1,do_logging=False)
    sh=[dict(x=x0.copy(),samples=[r0.copy()],ev=1)]
    saved=None; nev=1; degraded=False
    def mean(s): return np.mean(np.array(s['samples']),axis=0)
    for step in range(int(rng.integers(1,40))):
        ops=['change','sample','swap','shift','save','final']
        if model.npt()>=npt: ops.append('addpt')
        op=rng.choice(ops)
        k_=model.npt()
        if op=='change':
            k=int(rng.integers(0,min(k_+1,npt))) if k_<npt else int(rng.integers(0,k_))
            if k_<npt and rng.random()<0.6: k=k_
            xa=x0+rng.uniform(-4,4,size=n); r=rv(); nev+=1
            old=model.objval[k] if k<k_ else None
            waskopt=(k==model.kopt)
            model.change_point(k,xa-model.xbase,r,nev)
            ent=dict(x=xa,samples=[r.copy()],ev=nev)
            if k==len(sh): sh.append(ent)
            else: sh[k]=ent
            if waskopt and not (obj(r)<=old): degraded=True
        elif op=='sample':
            k=int(rng.integers(0,k_)); r=rv(); model.add_new_sample(k,r); sh[k]['samples'].append(r.copy()); degraded=False
        elif op=='swap' and k_>=2:
            a,b=rng.choice(k_,2,replace=False); model.swap_points(int(a),int(b)); sh[a],sh[b]=sh[b],sh[a]
        elif op=='shift':
            model.shift_base(model.xopt() if rng.random()<0.5 else rng.normal(size=n)*0.1)
        elif op=='addpt':
            xa=x0+rng.uniform(-4,4,size=n); r=rv(); nev+=1; model.add_new_point(xa-model.xbase,r,nev); sh.append(dict(x=xa,samples=[r.copy()],ev=nev)); npt+=1
        elif op=='save':
            xa=x0+rng.uniform(-4,4,size=n); r=rv(); nev+=1; ns=int(rng.integers(1,4))
            model.save_point(xa,r,ns,nev)
            o=obj(r)
            if saved is None or (np.isfinite(o) and (not np.isfinite(saved['o']) or o<=saved['o'])) : 
                if saved is None or np.isfinite(o) or not np.isfinite(saved['o']): saved=dict(x=xa,r=r,o=o,ns=ns,ev=nev)
        # invariants
        k_=model.npt()
        for k in range(k_):
            mu=mean(sh[k])
            if not np.allclose(model.fval_v[k],mu,rtol=1e-12,atol=1e-12,equal_nan=True): issues['fval mean']+=1
            if model.nsamples[k]!=len(sh[k]['samples']): issues[('nsamples',op)]+=1
            if model.eval_num[k]!=sh[k]['ev']: issues[('evalnum',op)]+=1
            if not np.allclose(model.xpt(k,abs_coordinates=True),sh[k]['x'],rtol=1e-12,atol=1e-12): issues[('x',op)]+=1
            o=obj(mu)
            if not (np.isclose(model.objval[k],o,rtol=1e-12,equal_nan=True)): issues['objval']+=1
        objs=np.array([obj(mean(sh[k])) for k in range(k_)])
        fin=objs[np.isfinite(objs)] if not np.all(np.isnan(objs)) else np.array([])
        fin=objs[~np.isnan(objs)]
        if not degraded and not np.isnan(objs[model.kopt]) and len(fin) and objs[model.kopt]!=fin.min(): issues[('kopt not min',op)]+=1
        if op=='final' or step%5==0:
            x,r,o,J,ns,ev,_=model.get_final_results()
            cand=[objs[model.kopt]]+([saved['o']] if saved else [])
            finc=[c for c in cand if not np.isnan(c)]
            if finc and (np.isnan(o) or o!=min(finc)): issues[('final not best/NaN-pref', np.isnan(o))]+=1
    
for k,v in sorted(issues.items(),key=str): print(k,v)
