import numpy as np, warnings, sys
from dfols.util import dykstra, pball, pbox
from collections import Counter
rng = np.random.default_rng(int(sys.argv[1]) if len(sys.argv)>1 else 0)
N = int(sys.argv[2]) if len(sys.argv)>2 else 2000
issues=Counter(); worst=Counter(); stats=Counter()
def mk(n, z, margin):
    # sets all containing ball B(z, margin)
    k=rng.choice(['ball','half','box'])
    if k=='ball':
        r=margin+rng.random()*2+0.0; c=z+rng.normal(size=n); c=z+(c-z)/max(np.linalg.norm(c-z),1e-12)*rng.random()*(r-margin)
        return ('ball',c,r), (lambda x,c=c,r=r: pball(x,c,r)), (lambda x,c=c,r=r: max(0,np.linalg.norm(x-c)-r))
    if k=='half':
        a=rng.normal(size=n); a/=np.linalg.norm(a); beta=a@z+margin+rng.random()
        return ('half',a,beta),(lambda x,a=a,beta=beta: x-max(0,a@x-beta)*a),(lambda x,a=a,beta=beta: max(0,a@x-beta))
    l=z-margin-rng.random(n)*2; u=z+margin+rng.random(n)*2
    return ('box',l,u),(lambda x,l=l,u=u: pbox(x,l,u)),(lambda x,l=l,u=u: np.linalg.norm(x-np.clip(x,l,u)))
errs=[]
for t in range(N):
    n=int(rng.integers(1,7)); p=int(rng.integers(1,5))
    z=rng.normal(size=n); margin=10.0**rng.uniform(-2,0)
    S=[mk(n,z,margin) for _ in range(p)]
    x0=z+rng.normal(size=n)*10.0**rng.uniform(-1,1.5)
    tol=10.0**rng.choice([-10,-10,-11,-12]); mi=int(rng.choice([100,100,1000,20]))
    cnt=[0]; last=[x0.copy()]; cI=[0.0]; sweeps=[]
    def wrap(i,P):
        def w(v):
            out=P(v)
            if i==0: 
                if cnt[0]>0: sweeps.append(cI[0])
                cI[0]=0.0; cnt[0]+=1
            cI[0]+=np.linalg.norm(out-last[0])**2; last[0]=out.copy(); return out
        return w
    x=dykstra([wrap(i,s[1]) for i,s in enumerate(S)], x0, max_iter=mi, tol=tol)
    sweeps.append(cI[0])
    by_rule = sweeps[-1]<tol
    if cnt[0]>mi: issues['too many sweeps']+=1
    stats[('rule' if by_rule else 'cap')]+=1
    ref=dykstra([s[1] for s in S], x0, max_iter=200000, tol=1e-30)
    if by_rule:
        dmax=max(s[2](x) for s in S)
        if dmax>np.sqrt(p*tol): issues['feas bound']+=1
        e=np.linalg.norm(x-ref); errs.append((e,margin,p,n,tol))
        if e>1e-3: issues['far from ref']+=1
    if S[-1][0]=='box' and S[-1][2](x)!=0: issues['last box not exact']+=1
    if max(s[2](x0) for s in S)==0 and np.linalg.norm(x-x0)>1e-14*(1+np.linalg.norm(x0)): issues['moved feasible']+=1
errs.sort(reverse=True)
for k,v in sorted(issues.items(), key=str): print(k,v)
print(stats); print(errs[:10])
