import numpy as np, dfols, warnings, sys
warnings.simplefilter('ignore')
rng = np.random.default_rng(int(sys.argv[1]) if len(sys.argv)>1 else 0)
N = int(sys.argv[2]) if len(sys.argv)>2 else 300
viol=0; tot=0; kinds={}; vs=0
for t in range(N):
    n = int(rng.integers(1,5)); m=int(rng.integers(1,6))
    A = rng.normal(size=(m,n)); b=rng.normal(size=m); c = rng.normal(size=m)*rng.choice([0,0.3])
    mag=int(rng.integers(0,4)); 
    xl = np.round(rng.normal(size=n)*10.0**rng.integers(-1,3,size=n), 3-mag+1); xu = np.round(xl + 10.0**rng.integers(-1,2,size=n)*(0.3+rng.random(n)*3), 3-mag+1)
    xu = np.where(xu<=xl, xl+0.5, xu)
    x0 = xl + (xu-xl)*rng.random(n)
    for i in range(n):
        r = rng.random()
        if r<0.15: x0[i]=xl[i]
        elif r<0.3: x0[i]=xu[i]
        elif r<0.4: x0[i]=xl[i]-rng.random()
        elif r<0.5: x0[i]=np.nextafter(xu[i], -np.inf)
    rec=[]
    def f(x):
        rec.append(x.copy()); r = A@x-b; return r + c*np.sin(x.sum())
    scaling = bool(rng.random()<0.5)
    gap = np.min(xu-xl) if not scaling else 1.0
    rhobeg = gap/2.5*float(rng.choice([0.1,0.5,1.0]))
    npt = int(rng.integers(n+1, 2*n+2))
    try:
        s = dfols.solve(f, x0, bounds=(xl,xu), rhobeg=rhobeg, rhoend=rhobeg*1e-6, npt=npt, maxfun=80, scaling_within_bounds=scaling, do_logging=False)
    except Exception as e:
        k=type(e).__name__+str(e)[:60]; kinds[k] = kinds.get(k,0)+1; continue
    tot+=1
    bad = any(np.any(x<xl) or np.any(x>xu) for x in rec) or np.any(s.x<xl) or np.any(s.x>xu)
    if bad: viol+=1; vs+=scaling
print('runs',tot,'viol',viol,'of which scaled',vs, kinds)
